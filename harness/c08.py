"""C08 — evaluators never go stale after a model is modified.

T : gen/gen_canary.py -> coq/Gen/CanaryGen.v (trip table, canary entries, add_func registrations, recompile
    condition, master-canary handling, set_sp); obligations in coq/Props/C08.v.
K : random operation histories on a live SimulateOde (lambda back-end); after every operation the canary entries,
    the set of <name>Compiled attributes that changed identity, the status of the evaluation (value / raised) and
    whether the value equals the fresh model's are emitted and compared inside Coq with Canary.trace run on the
    extracted facts.
S : the property stated directly: after every evaluation in the history (and for all eleven evaluators at its end)
    the value equals that of a model constructed from scratch with the same final definition and parameter values
    (constructor route, never evaluated before), and for ode / eventRateVector / vMat / pureOdeVector also an
    evaluation of the harness' own definition structures that does not go through pygom or sympy.
"""
import json, os, sys, time
import numpy as np
import common
sys.path.insert(0, os.path.join(common.VERIF, "gen"))

EVALS11 = ["ode", "jacobian", "diff_jacobian", "grad", "grad_jacobian", "transitionJacobian", "pureOdeVector",
           "vMat", "eventRateVector", "transitionMean", "transitionVar"]
TOL = 1e-12
STATES = ["S", "I", "R"]


# ------------------------------------------------------------------ definition structures (harness' own)
# rate: dict(k=kind, p=param-or-derived name, q=second param, X=state, Y=state)
def rate_str(r):
    k = r["k"]
    if k == "lin":  return "%s*%s" % (r["p"], r["X"])
    if k == "mass": return "%s*%s*%s" % (r["p"], r["X"], r["Y"])
    if k == "sat":  return "%s*%s/(1 + %s)" % (r["p"], r["X"], r["Y"])
    if k == "const": return "%s" % r["p"]
    if k == "lin2": return "%s*%s - %s*%s" % (r["p"], r["X"], r["q"], r["Y"])
    raise ValueError(k)


def rate_val(r, env):
    k = r["k"]
    if k == "lin":  return env[r["p"]] * env[r["X"]]
    if k == "mass": return env[r["p"]] * env[r["X"]] * env[r["Y"]]
    if k == "sat":  return env[r["p"]] * env[r["X"]] / (1 + env[r["Y"]])
    if k == "const": return env[r["p"]]
    if k == "lin2": return env[r["p"]] * env[r["X"]] - env[r["q"]] * env[r["Y"]]
    raise ValueError(k)


def rate_names(r):
    return [r[f] for f in ("p", "q") if f in r]


def derived_str(d):      # derived parameter equation: a*p (+ q)
    return "%d*%s" % (d["a"], d["p"]) + (" + %s" % d["q"] if d.get("q") else "")


def derived_val(d, env):
    return d["a"] * env[d["p"]] + (env[d["q"]] if d.get("q") else 0.0)


# a definition = dict(states, params, derived=[(name, d)], events=[(rate, [tr...])], odes=[(state, rate)])
# tr = dict(tt='T'|'B'|'D', o=origin, d=destination, mag=int)
def apply_mut(defn, op):
    """the effect of one mutator on the harness' own definition (independent of pygom)"""
    how = op["how"]
    if how in ("add_event_E", "event_list", "event_list_bad_tail"):
        defn["events"].append((op["rate"], op["tr"]))
    elif how in ("add_event_T", "add_transition", "transition_list", "add_birth_death", "birth_death_list"):
        defn["events"].append((op["rate"], [dict(op["tr"][0], mag=1)]))
    elif how in ("add_ode", "ode_list"):
        defn["odes"].append((op["o"], op["rate"]))
    elif how in ("param_list",):
        defn["params"].append(op["name"])
    elif how == "derived_param_list":
        defn["derived"].append((op["name"], op["eq"]))
    else:
        raise ValueError(how)


COQ_MUT = dict(add_event_E="add_event", add_event_T="add_event", add_transition="add_transition",
               add_birth_death="add_birth_death", add_ode="add_ode", param_list="param_list",
               derived_param_list="derived_param_list", transition_list="transition_list", event_list="event_list",
               birth_death_list="birth_death_list", ode_list="ode_list", event_list_bad_tail="event_list")


def new_def(h):
    d = dict(states=list(h["states"]), params=list(h["params"]), derived=[], events=[], odes=[])
    for op in h["base"]:
        apply_mut(d, op)
    return d


# ------------------------------------------------------------------ pygom side
def mk_transition(pg, tr, eq=None):
    if tr["tt"] == "T":
        return pg.Transition(origin=tr["o"], destination=tr["d"], equation=eq, transition_type="T", magnitude=str(tr.get("mag", 1)))
    if tr["tt"] == "B":
        return pg.Transition(destination=tr["d"], equation=eq, transition_type="B", magnitude=str(tr.get("mag", 1)))
    return pg.Transition(origin=tr["o"], equation=eq, transition_type="D", magnitude=str(tr.get("mag", 1)))


def build(defn, vals, backend="lambda"):
    """construct a model from scratch through the constructor (events as Event objects, in order)"""
    import pg
    evs = [pg.Event(rate=rate_str(r), transition_list=[mk_transition(pg, t) for t in trs]) for r, trs in defn["events"]]
    odes = [pg.Transition(origin=s, equation=rate_str(r), transition_type="ODE") for s, r in defn["odes"]]
    kw = dict(state=list(defn["states"]), param=list(defn["params"]), event=evs)
    if defn["derived"]:
        kw["derived_param"] = [(n, derived_str(d)) for n, d in defn["derived"]]
    if odes:
        kw["ode"] = odes
    m = pg.model(lambda_backend=(backend != "cython"), **kw)
    if vals is not None:
        if len(vals) == len(defn["params"]):
            m.parameters = list(vals)
        else:
            m.parameters = {defn["params"][i]: v for i, v in enumerate(vals)}
    return m


def do_mut(m, op):
    import pg
    how = op["how"]
    if how == "add_event_E":
        m.add_event(pg.Event(rate=rate_str(op["rate"]), transition_list=[mk_transition(pg, t) for t in op["tr"]]))
    elif how == "event_list":
        m.event_list = [pg.Event(rate=rate_str(op["rate"]), transition_list=[mk_transition(pg, t) for t in op["tr"]])]
    elif how == "event_list_bad_tail":
        # a list whose second element is refused: the assignment raises, the first element has been entered
        try:
            m.event_list = [pg.Event(rate=rate_str(op["rate"]), transition_list=[mk_transition(pg, t) for t in op["tr"]]), "junk"]
        except Exception:       # noqa: BLE001
            pass
    elif how == "add_event_T":
        m.add_event(mk_transition(pg, dict(op["tr"][0], mag=1), rate_str(op["rate"])))
    elif how == "add_transition":
        m.add_transition(mk_transition(pg, dict(op["tr"][0], mag=1), rate_str(op["rate"])))
    elif how == "transition_list":
        m.transition_list = [mk_transition(pg, dict(op["tr"][0], mag=1), rate_str(op["rate"]))]
    elif how == "add_birth_death":
        m.add_birth_death(mk_transition(pg, dict(op["tr"][0], mag=1), rate_str(op["rate"])))
    elif how == "birth_death_list":
        m.birth_death_list = [mk_transition(pg, dict(op["tr"][0], mag=1), rate_str(op["rate"]))]
    elif how == "add_ode":
        m.add_ode(pg.Transition(origin=op["o"], equation=rate_str(op["rate"]), transition_type="ODE"))
    elif how == "ode_list":
        m.ode_list = [pg.Transition(origin=op["o"], equation=rate_str(op["rate"]), transition_type="ODE")]
    elif how == "param_list":
        m.param_list = [op["name"]] if op.get("form", "list") == "list" else op["name"]
    elif how == "derived_param_list":
        m.derived_param_list = [(op["name"], derived_str(op["eq"]))]
    else:
        raise ValueError(how)


def do_set(m, op, params):
    if op["form"] == "list":
        m.parameters = list(op["vals"])
    elif op["form"] == "array":
        m.parameters = np.array(op["vals"], dtype=float)
    else:
        m.parameters = {params[i]: v for i, v in op["items"]}


def canary_flag(m, name):
    c = m._hasNewTransition
    st = c.__dict__.get("_states", {})
    if name in st:
        return bool(st[name])
    return bool(c.__dict__.get(name, True))


def oracle(defn, vals, x, e):
    """ode / eventRateVector / vMat / pureOdeVector from the harness' structures only"""
    env = dict(zip(defn["states"], x))
    env.update({p: v for p, v in zip(defn["params"], vals)})
    for n, d in defn["derived"]:
        env[n] = derived_val(d, env)
    nS, nE = len(defn["states"]), len(defn["events"])
    idx = {s: i for i, s in enumerate(defn["states"])}
    rates = np.array([rate_val(r, env) for r, _ in defn["events"]], dtype=float)
    V = np.zeros((nS, nE))
    for j, (_, trs) in enumerate(defn["events"]):
        for t in trs:
            mg = t.get("mag", 1)
            mg = env[mg] if isinstance(mg, str) else mg       # a magnitude may be a parameter (burst size)
            if t["tt"] in ("T", "D"): V[idx[t["o"]], j] -= mg
            if t["tt"] in ("T", "B"): V[idx[t["d"]], j] += mg
    pure = np.zeros(nS)
    for s, r in defn["odes"]:
        pure[idx[s]] += rate_val(r, env)
    if e == "eventRateVector": return rates
    if e == "vMat": return V
    if e == "pureOdeVector": return pure
    if e == "ode": return V.dot(rates) + pure
    return None


def close(a, b, tol=TOL):
    a, b = np.asarray(a, dtype=float), np.asarray(b, dtype=float)
    return a.shape == b.shape and bool(np.all(np.abs(a - b) <= tol * (1.0 + np.abs(b))))


class Fresh:
    """values of models constructed from scratch, cached per (definition length, values)"""

    def __init__(self, h):
        self.h, self.cache = h, {}

    def value(self, defn, ndef, vals, e):
        key = (ndef, tuple(vals))
        if key not in self.cache:
            self.cache[key] = (build(defn, vals), {})
        m, got = self.cache[key]
        if e not in got:
            try:
                got[e] = np.asarray(getattr(m, e)(np.array(self.h["x"]), 0.0), dtype=float)
            except BaseException as ex:      # noqa: B902
                got[e] = repr(ex)[:120]
        return got[e]


def run_history(h, canary, registered, use_oracle=True):
    """drive the live model; returns (seen, failures) with one `seen` entry per op of all_ops(h)"""
    import pg
    defn = new_def(h)
    live = build(defn, None, h.get("backend", "lambda"))
    # a second, unrelated live model that is evaluated just before every evaluation of `live`: recompile flags and
    # compiled closures are per model, so this must never influence `live` (it does if they are shared between instances)
    bystander = None
    try:
        d0 = new_def(h)
        bystander = build(d0, None, h.get("backend", "lambda"))
        if d0["params"]:
            bystander.parameters = [0.5] * len(d0["params"])
    except BaseException:      # noqa: B902
        bystander = None
    fresh = Fresh(h)
    x = np.array(h["x"])
    seen, fails = [], []
    vals, ndef = [], 0
    ids = {e: None for e in registered}
    for i, op in enumerate(h["ops"]):
        status, isfresh = 0, True
        raised = None
        if op["op"] == "mut":
            with pg.quiet():
                do_mut(live, op)
            apply_mut(defn, op)
            ndef += 1
        elif op["op"] == "set":
            try:
                do_set(live, op, defn["params"])
                ok = True
            except BaseException as ex:     # noqa: B902
                ok = False
            n = len(defn["params"])
            if op["form"] in ("list", "array"):
                want = len(op["vals"]) == n
                if want: newvals = list(op["vals"])
            else:
                want = all(j < n for j, _ in op["items"])
                if want:
                    newvals = list(vals) + [0.0] * (n - len(vals))
                    for j, v in op["items"]:
                        newvals[j] = v
            if ok != want:
                fails.append(dict(at=i, kind="setter", e="parameters",
                                  what="parameters assignment %s but the property expects it to be %s"
                                  % ("accepted" if ok else "rejected", "accepted" if want else "rejected")))
            if ok and want:
                vals = newvals
        else:
            e = op["e"]
            if bystander is not None:
                try:
                    getattr(bystander, e)(x, 0.0)
                except BaseException:      # noqa: B902
                    pass
            try:
                got = np.asarray(getattr(live, e)(x, 0.0), dtype=float)
                status = 1
            except BaseException as ex:     # noqa: B902
                got, status, raised = None, 2, repr(ex)[:160]
            want = fresh.value(defn, ndef, vals, e)
            if isinstance(want, str):
                raise common.InternalError("fresh model cannot evaluate %s: %s (history outside the domain?)" % (e, want))
            if status == 2:
                isfresh = False
                fails.append(dict(at=i, kind="error", e=e, what="%s raised %s; a freshly constructed model returns %s"
                                  % (e, raised, np.round(want, 6).tolist())))
            elif not close(got, want):
                isfresh = False
                fails.append(dict(at=i, kind="stale", e=e, what="%s returned %s; a freshly constructed model returns %s"
                                  % (e, np.round(got, 6).tolist(), np.round(want, 6).tolist())))
            elif use_oracle and len(vals) == len(defn["params"]):
                o = oracle(defn, vals, x, e)
                if o is not None and not close(np.asarray(got).reshape(o.shape) if np.asarray(got).size == o.size else got, o, 1e-9):
                    fails.append(dict(at=i, kind="oracle", e=e, what="%s returned %s; the definition evaluates to %s"
                                      % (e, np.round(got, 6).tolist(), np.round(o, 6).tolist())))
        rec = []
        for e2 in registered:
            cur = live.__dict__.get(e2 + "Compiled")
            rec.append(cur is not ids[e2])
            ids[e2] = cur
        seen.append(dict(flags=[canary_flag(live, c) for c in canary], rec=rec, status=status, fresh=isfresh))
    return seen, fails


# ------------------------------------------------------------------ generator
def gen_rate(rng, names, kinds=("lin", "mass", "sat", "const")):
    k = kinds[int(rng.integers(0, len(kinds)))]
    X, Y = [STATES[int(j)] for j in rng.permutation(3)[:2]]
    r = dict(k=str(k), p=str(names[int(rng.integers(0, len(names)))]), X=X, Y=Y)
    if k == "lin2":
        r["q"] = str(names[int(rng.integers(0, len(names)))])
    return r


def gen_tr(rng, tt=None, mags=(1, 2, 3)):
    tt = tt or ["T", "T", "B", "D"][int(rng.integers(0, 4))]
    o, d = [STATES[int(j)] for j in rng.permutation(3)[:2]]
    mag = mags[int(rng.integers(0, len(mags)))]
    return dict(tt=tt, o=o if tt != "B" else None, d=d if tt != "D" else None, mag=(mag if isinstance(mag, str) else int(mag)))


def gen_val(rng):
    return float(int(rng.integers(1, 17))) / 8.0


MUT_KINDS = ["add_event_E", "add_event_T", "add_transition", "add_birth_death", "add_ode", "param_list",
             "derived_param_list", "transition_list", "event_list", "birth_death_list", "ode_list"]


def gen_mut(rng, how, usable, nparam, nder):
    if how in ("add_event_E", "event_list"):
        return dict(op="mut", how=how, rate=gen_rate(rng, usable), tr=[gen_tr(rng) for _ in range(int(rng.integers(1, 3)))])
    if how in ("add_event_T", "add_transition", "transition_list"):
        tt = "T" if how != "add_event_T" else None
        return dict(op="mut", how=how, rate=gen_rate(rng, usable), tr=[gen_tr(rng, tt, (1,))])
    if how in ("add_birth_death", "birth_death_list"):
        return dict(op="mut", how=how, rate=gen_rate(rng, usable), tr=[gen_tr(rng, "BD"[int(rng.integers(0, 2))], (1,))])
    if how in ("add_ode", "ode_list"):
        return dict(op="mut", how=how, o=STATES[int(rng.integers(0, 3))], rate=gen_rate(rng, usable, ("lin", "lin2", "mass")))
    if how == "param_list":
        return dict(op="mut", how=how, name="p%d" % nparam, form="list" if rng.random() < 0.7 else "str")
    if how == "derived_param_list":
        base = [u for u in usable if u.startswith("p")]
        eq = dict(a=int(rng.integers(2, 5)), p=str(base[int(rng.integers(0, len(base)))]))
        if rng.random() < 0.5:
            eq["q"] = str(base[int(rng.integers(0, len(base)))])
        return dict(op="mut", how=how, name="d%d" % nder, eq=eq)
    raise ValueError(how)


def gen_history(rng, maxlen):
    params = ["p0", "p1"]
    h = dict(states=list(STATES), params=list(params), x=[float(int(rng.integers(4, 33))) / 8.0 for _ in STATES], base=[], ops=[])
    # in a third of the histories the base event's magnitude is a parameter: the state-change matrix then depends on the
    # parameter VALUES (and on nothing else), so a stale vMat shows after a plain parameters assignment
    h["base"].append(dict(op="mut", how="add_event_E", rate=gen_rate(rng, params),
                          tr=[gen_tr(rng, "T", (1, 2, 3) if rng.random() < 0.67 else ("p0", "p1"))]))
    if rng.random() < 0.5:
        h["base"].append(dict(op="mut", how="add_ode", o="R", rate=gen_rate(rng, params, ("lin", "lin2"))))
    vals = [gen_val(rng) for _ in params]
    h["ops"].append(dict(op="set", form="list", vals=vals))
    nparam, nder, nvalued = 2, 0, 2
    derived = []
    L = int(rng.integers(3, maxlen + 1))
    while len(h["ops"]) < L:
        usable = ["p%d" % i for i in range(nvalued)] + derived
        r = rng.random()
        if r < 0.45:
            k = int(rng.integers(1, 4))
            for e in rng.permutation(EVALS11)[:k]:
                h["ops"].append(dict(op="eval", e=str(e)))
        elif r < 0.80:
            how = MUT_KINDS[int(rng.integers(0, len(MUT_KINDS)))]
            if how == "param_list" and nparam >= 5:
                continue
            if how == "derived_param_list" and nder >= 2 and not derived:
                continue
            if how == "derived_param_list" and nder >= 2 and rng.random() < 0.5:
                continue
            op = gen_mut(rng, how, usable, nparam, nder)
            if how == "derived_param_list" and derived and rng.random() < 0.4:
                # declared again under a name already in use: the new definition replaces the old one everywhere
                op["name"] = derived[int(rng.integers(0, len(derived)))]
                h["ops"].append(op)
                continue
            h["ops"].append(op)
            if how == "param_list": nparam += 1
            if how == "derived_param_list":
                derived.append(op["name"]); nder += 1
        else:
            c = rng.random()
            last = [o for o in h["ops"] if o["op"] == "set" and o["form"] in ("list", "array") and len(o["vals"]) == nparam]
            if c < 0.12 and last:
                # a small change (3e-6 relative) of every value: still a change
                h["ops"].append(dict(op="set", form="list", vals=[v * (1.0 + 3e-6) for v in last[-1]["vals"]]))
                nvalued = nparam
            elif c < 0.45:
                h["ops"].append(dict(op="set", form="list" if rng.random() < 0.7 else "array", vals=[gen_val(rng) for _ in range(nparam)]))
                nvalued = nparam
            elif c < 0.9:
                k = int(rng.integers(1, nparam + 1))
                items = [[int(j), gen_val(rng)] for j in rng.permutation(nparam)[:k]]
                h["ops"].append(dict(op="set", form="dict", items=items))
                nvalued = nparam     # the dict form rebuilds _paramValue with every declared parameter (unset = 0)
            else:                    # malformed: wrong length, must be rejected without any effect
                h["ops"].append(dict(op="set", form="list", vals=[gen_val(rng) for _ in range(nparam + 1)]))
    for e in rng.permutation(EVALS11):
        h["ops"].append(dict(op="eval", e=str(e)))
    return h


def targeted():
    """[compile all; mutate m; evaluate all] for every mutator, plus the split parameter-growth histories"""
    out = []
    rng = np.random.default_rng(12345)
    ev_all = [dict(op="eval", e=e) for e in EVALS11]
    for how in MUT_KINDS:
        h = dict(states=list(STATES), params=["p0", "p1"], x=[2.0, 1.5, 0.75],
                 base=[dict(op="mut", how="add_event_E", rate=dict(k="mass", p="p0", X="S", Y="I"), tr=[dict(tt="T", o="S", d="I", mag=1)]),
                       dict(op="mut", how="add_ode", o="R", rate=dict(k="lin", p="p1", X="I", Y="S"))],
                 ops=[dict(op="set", form="list", vals=[0.5, 0.25])] + ev_all)
        op = gen_mut(rng, how, ["p0", "p1"], 2, 0)
        h["ops"] = h["ops"] + [op]
        if how == "param_list":
            h2 = json.loads(json.dumps(h))
            # compound: declare, give values, use it
            h["ops"] += [dict(op="set", form="list", vals=[0.5, 0.25, 0.125]),
                         dict(op="mut", how="add_event_E", rate=dict(k="lin", p="p2", X="I", Y="R"), tr=[dict(tt="T", o="I", d="R", mag=1)])] + ev_all
            # split: evaluate between the declaration and the assignment of values
            h2["ops"] += ev_all + [dict(op="set", form="list", vals=[0.5, 0.25, 0.125])] + ev_all
            out.append(h2)
            h3 = json.loads(json.dumps(h2))
            h3["ops"] = [o for o in h2["ops"]]
            h3["ops"][-len(ev_all) - 1] = dict(op="set", form="dict", items=[[2, 0.125]])
            out.append(h3)
        elif how == "derived_param_list":
            h["ops"] += [dict(op="mut", how="add_birth_death", rate=dict(k="lin", p="d0", X="R", Y="S"), tr=[dict(tt="D", o="R", d=None, mag=1)])] + ev_all
        else:
            h["ops"] += ev_all
        out.append(h)
    # master-canary interplay: only a non-master evaluator is compiled before the change
    for e in ("jacobian", "vMat", "transitionVar"):
        h = json.loads(json.dumps(out[0]))
        h["ops"] = [h["ops"][0], dict(op="eval", e=e), dict(op="mut", how="add_event_T", rate=dict(k="lin", p="p1", X="I", Y="R"),
                    tr=[dict(tt="T", o="I", d="R", mag=1)]), dict(op="eval", e=e), dict(op="eval", e="ode"), dict(op="eval", e=e),
                    dict(op="set", form="dict", items=[[0, 1.0]]), dict(op="eval", e=e), dict(op="eval", e="ode")]
        out.append(h)
    # what one generator left behind (a symbolic Jacobian, gradient, ...) must not be trusted by another one after a change:
    # [evaluate a; add a NON-LINEAR process; evaluate ode (revives the master canary); evaluate b] for every ordered pair
    for a in EVALS11:
        for b in EVALS11:
            if a == b or "ode" in (a, b):
                continue
            h = json.loads(json.dumps(out[0]))
            h["ops"] = [h["ops"][0], dict(op="eval", e=a),
                        dict(op="mut", how="add_event_T", rate=dict(k="mass", p="p1", X="R", Y="S"), tr=[dict(tt="T", o="R", d="S", mag=1)]),
                        dict(op="eval", e="ode"), dict(op="eval", e=b)]
            out.append(h)
    # an Event without member transitions (a pure counter: it has a rate, moves nothing), and a list assignment that is refused
    # at its second element after the first has been entered
    for extra in (dict(op="mut", how="add_event_E", rate=dict(k="lin", p="p1", X="R", Y="S"), tr=[]),
                  dict(op="mut", how="event_list_bad_tail", rate=dict(k="lin", p="p1", X="I", Y="R"), tr=[dict(tt="T", o="I", d="R", mag=1)])):
        out.append(dict(states=list(STATES), params=["p0", "p1"], x=[2.0, 1.5, 0.75],
                        base=[dict(op="mut", how="add_event_E", rate=dict(k="mass", p="p0", X="S", Y="I"), tr=[dict(tt="T", o="S", d="I", mag=1)])],
                        ops=[dict(op="set", form="list", vals=[0.5, 0.25])] + [dict(op="eval", e=e) for e in EVALS11] + [extra]
                            + [dict(op="eval", e=e) for e in EVALS11]))
    # parameter values changed by a few parts in a million, and parameters of magnitude 1e-9: a change is a change
    base1 = [dict(op="mut", how="add_event_E", rate=dict(k="mass", p="p0", X="S", Y="I"), tr=[dict(tt="T", o="S", d="I", mag=1)]),
             dict(op="mut", how="add_ode", o="R", rate=dict(k="lin", p="p1", X="I", Y="S"))]
    for v0, v1 in (([0.5, 0.25], [0.5 * (1 + 4e-6), 0.25 * (1 - 4e-6)]), ([2e-9, 3e-9], [7e-9, 1e-9])):
        out.append(dict(states=list(STATES), params=["p0", "p1"], x=[2.0e6, 1.5e6, 0.75e6] if v0[0] < 1e-6 else [2.0, 1.5, 0.75],
                        base=json.loads(json.dumps(base1)),
                        ops=[dict(op="set", form="list", vals=v0), dict(op="eval", e="ode"), dict(op="eval", e="jacobian"),
                             dict(op="set", form="list", vals=v1), dict(op="eval", e="ode"), dict(op="eval", e="jacobian"),
                             dict(op="set", form="dict", items=[[0, v0[0]]]), dict(op="eval", e="ode"), dict(op="eval", e="eventRateVector")]))
    # a derived parameter declared again under the same name: every evaluator that was compiled with the old definition
    for e in ("ode", "jacobian", "eventRateVector", "transitionMean", "grad"):
        out.append(dict(states=list(STATES), params=["p0", "p1"], x=[2.0, 1.5, 0.75],
                        base=[dict(op="mut", how="derived_param_list", name="d0", eq=dict(a=2, p="p0")),
                              dict(op="mut", how="add_event_E", rate=dict(k="mass", p="d0", X="S", Y="I"), tr=[dict(tt="T", o="S", d="I", mag=1)])],
                        ops=[dict(op="set", form="list", vals=[0.5, 0.25]), dict(op="eval", e=e),
                             dict(op="mut", how="derived_param_list", name="d0", eq=dict(a=3, p="p1", q="p0")), dict(op="eval", e=e),
                             dict(op="eval", e="ode")]))
    # a magnitude that is a parameter: each evaluator alone, evaluated, parameter VALUES changed, evaluated again
    for e in ("vMat", "ode", "transitionMean", "transitionVar", "jacobian"):
        for form in ("list", "dict"):
            setop = dict(op="set", form="list", vals=[1.5, 0.75]) if form == "list" else dict(op="set", form="dict", items=[[0, 1.5]])
            out.append(dict(states=list(STATES), params=["p0", "p1"], x=[2.0, 1.5, 0.75],
                            base=[dict(op="mut", how="add_event_E", rate=dict(k="mass", p="p1", X="S", Y="I"),
                                       tr=[dict(tt="T", o="S", d="I", mag="p0"), dict(tt="B", o=None, d="R", mag=2)])],
                            ops=[dict(op="set", form="list", vals=[0.5, 0.25]), dict(op="eval", e=e), setop, dict(op="eval", e=e),
                                 dict(op="eval", e=e)]))
    return out


def cython_subset(quick):
    """a measured handful of evaluations on the default Cython back-end (3-4 s per compile); fresh side stays lambda"""
    base = dict(states=list(STATES), params=["p0", "p1"], x=[2.0, 1.5, 0.75], backend="cython",
                base=[dict(op="mut", how="add_event_E", rate=dict(k="mass", p="p0", X="S", Y="I"), tr=[dict(tt="T", o="S", d="I", mag=1)])])
    ode2 = dict(op="mut", how="add_ode", o="R", rate=dict(k="lin", p="p1", X="I", Y="S"))
    ev = lambda e: dict(op="eval", e=e)
    hs = [dict(base, ops=[dict(op="set", form="list", vals=[0.5, 0.25]), ev("ode"), ode2, ev("ode")])]
    if not quick:
        hs.append(dict(base, ops=[dict(op="set", form="list", vals=[0.5, 0.25]), ev("jacobian"), ev("vMat"),
                                  dict(op="mut", how="add_event_T", rate=dict(k="lin", p="p1", X="I", Y="R"), tr=[dict(tt="T", o="I", d="R", mag=1)]),
                                  ev("vMat"), ev("ode"), ev("jacobian"), dict(op="set", form="dict", items=[[0, 1.0]]), ev("ode"),
                                  dict(op="mut", how="param_list", name="p2", form="list"), ev("grad"),
                                  dict(op="set", form="list", vals=[0.5, 0.25, 0.125]), ev("grad")]))
    return hs


def observe_partial_mutation():
    """informational only (never a violation): a param_list assignment that raises half-way keeps the first names
    but does not trip (the trip is the setter's last statement)"""
    import pg
    h = targeted()[0]
    m = build(new_def(h), [0.5, 0.25])
    x = np.array(h["x"])
    before = np.asarray(m.grad(x, 0.0)).shape
    try:
        m.param_list = ["pX", "_bad"]
        raised = False
    except BaseException:      # noqa: B902
        raised = True
    after = np.asarray(m.grad(x, 0.0)).shape
    return dict(raised=raised, declared_after=[str(p) for p in m.param_list], grad_shape_before=list(before),
                grad_shape_after=list(after), stale=bool(raised and len(m.param_list) == 3 and after == before))


# ------------------------------------------------------------------ validity, shrinking, classes
def valid(h):
    """every rate only uses parameters that have a value at that moment; names are new; lengths make sense"""
    declared, valued, derived = list(h["params"]), 0, []
    for op in h["base"]:
        if op["how"] == "derived_param_list":
            derived.append(op["name"])
            continue
        if any(n not in declared[:2] + derived for n in rate_names(op["rate"])):
            return False
    for op in h["ops"]:
        if op["op"] == "mut":
            if op["how"] == "param_list":
                if op["name"] in declared: return False
                declared.append(op["name"])
            elif op["how"] == "derived_param_list":
                if op["eq"]["p"] not in declared[:valued] or (op["eq"].get("q") and op["eq"]["q"] not in declared[:valued]):
                    return False
                derived.append(op["name"])
            else:
                if any(n not in declared[:valued] + derived for n in rate_names(op["rate"])):
                    return False
        elif op["op"] == "set":
            if op["form"] in ("list", "array"):
                if len(op["vals"]) == len(declared): valued = len(declared)
            elif all(j < len(declared) for j, _ in op["items"]):
                valued = len(declared)
        else:
            if valued == 0: return False
    return True


def first_failure(h, canary, registered):
    try:
        _, fails = run_history(h, canary, registered)
    except common.InternalError:
        return None
    return fails[0] if fails else None


def classify(h, f):
    last = None
    for op in h["ops"][:f["at"]]:
        if op["op"] == "mut":
            last = COQ_MUT[op["how"]]
    if f["kind"] == "setter":
        return "parameters-setter-" + ("accepted-malformed" if "accepted but" in f["what"] else "rejected-wellformed")
    return "%s-after-%s" % ({"stale": "stale", "error": "error", "oracle": "wrong-value"}[f["kind"]], last or "construction")


def shrink(h, f, canary, registered, budget=150):
    ops = list(h["ops"][:f["at"] + 1])
    cur = dict(h, ops=ops)
    if cur.get("backend") == "cython":          # the flag logic is back-end independent: shrink on the instant back-end if possible
        alt = {k: v for k, v in cur.items() if k != "backend"}
        g = first_failure(alt, canary, registered)
        if g is not None and g["kind"] == f["kind"] and g["at"] == len(ops) - 1:
            cur = alt
    changed = True
    while changed and budget > 0:
        changed = False
        for i in range(len(cur["ops"]) - 1):
            cand = dict(cur, ops=cur["ops"][:i] + cur["ops"][i + 1:])
            if not valid(cand):
                continue
            budget -= 1
            g = first_failure(cand, canary, registered)
            if g is not None and g["at"] == len(cand["ops"]) - 1 and g["kind"] == f["kind"]:
                cur, changed = cand, True
                break
            if budget <= 0:
                break
    g = first_failure(cur, canary, registered) or f
    return cur, g


# ------------------------------------------------------------------ Coq emission
def coq_bools(bs):
    return "[" + "; ".join("true" if b else "false" for b in bs) + "]"


def coq_ops(h, valmap):
    out = []
    for op in h["ops"]:
        if op["op"] == "mut":
            out.append('Mutate "%s" %d' % (COQ_MUT[op["how"]], len(out) + 1))
        elif op["op"] == "set":
            if op["form"] in ("list", "array"):
                out.append("SetList [%s]%%Z" % "; ".join(str(valmap(v)) for v in op["vals"]))
            else:
                out.append("SetDict [%s]" % "; ".join("(%d, %d%%Z)" % (j, valmap(v)) for j, v in op["items"]))
        else:
            out.append('Eval "%s"' % op["e"])
    return "[" + "; ".join(out) + "]"


def coq_case(h, seen):
    valmap = lambda v: int(round(v * 8))
    s = "[" + "; ".join("(%s, %s, %d, %s)" % (coq_bools(o["flags"]), coq_bools(o["rec"]), o["status"],
                                              "true" if o["fresh"] else "false") for o in seen) + "]"
    return "(%d, %s, %s)" % (len(h["params"]), coq_ops(h, valmap), s)


COQ_HEAD = """From Coq Require Import List String ZArith Bool.
From PV Require Import Util Canary Gen.CanaryGen.
Import ListNotations. Open Scope string_scope.
"""


def facts_lists():
    import gen_canary
    try:
        d = gen_canary.extract()
        return d, d["canary"], [e for e, _ in d["registered"]]
    except gen_canary.Unsupported as u:
        return dict(error=str(u)), list(EVALS11), list(EVALS11)


def run(ck):
    import gen_canary
    L = ck.budget(12, 40)
    ck.rule = ("operation histories on a 3-state SimulateOde (lambda back-end): targeted [compile all; mutate m; evaluate "
               "all] for each of the 11 mutator routes + split parameter growth + master-canary interplay, then random "
               "histories of 3..%d ops (45%% evaluations of 1-3 random evaluators, 35%% mutators add_event(Event/"
               "Transition)/add_transition/add_birth_death/add_ode/param_list/derived_param_list and the four list "
               "setters, 20%% parameter assignments list/ndarray/dict/malformed) always ending with all eleven "
               "evaluators; non-trivial = some mutator or parameter assignment happens after an evaluator was "
               "compiled and an evaluation follows it; distinct by canonical JSON hash") % L
    ok = ck.coq_build("C08", [("CanaryGen", gen_canary.generate())], extra=("Util.vo", "Canary.vo", "CanaryProofs.vo", "CanaryComp.vo"))
    common.name_assumptions(ck, "C08")
    if ok and not ck.quick:
        cmd = "timeout 900 coqchk -silent -o -R . PV PV.Props.C08"
        ck.checker_cmds.append("cd /verif/coq && " + cmd)
        rc, out = common.sh(cmd, cwd=common.COQ, timeout=1000)
        ck.notes["coqchk"] = out[-600:]
        if rc != 0 or "Axioms: <none>" not in out:
            ck.broken.append(dict(theorem="coqchk Props/C08.vo", file="Props/C08.vo", error=out[-1200:]))
    facts, canary, registered = facts_lists()
    ck.notes["extracted_facts"] = facts
    rng = np.random.default_rng(ck.seed)
    N = ck.budget(150, 600)
    hs = targeted() + cython_subset(ck.quick) + [gen_history(rng, L) for _ in range(N)]
    for h in hs:
        if not valid(h):
            raise common.InternalError("generator produced a history outside the domain: %s" % json.dumps(h)[:300])
    t0 = time.time()
    results, dist = [], {}
    for h in hs:
        seen, fails = run_history(h, canary, registered)
        results.append((seen, fails))
        compiled, nontriv, pending = False, False, False
        for op in h["ops"]:
            key = op["op"] + ":" + (op.get("how") or op.get("form") or op.get("e"))
            dist[key] = dist.get(key, 0) + 1
            if op["op"] == "eval":
                if pending: nontriv = True
                compiled = True
            elif compiled:
                pending = True
        ck.case(h, nontrivial=nontriv)
    ck.notes["input_distribution"] = dist
    ck.notes["cython_backend_histories"] = sum(1 for h in hs if h.get("backend") == "cython")
    try:
        ck.notes["observation_partial_mutation_on_error"] = observe_partial_mutation()
    except BaseException as ex:      # noqa: B902
        ck.notes["observation_partial_mutation_on_error"] = repr(ex)[:200]
    ck.notes["pygom_wall_s"] = round(time.time() - t0, 1)
    ck.notes["tolerance"] = ("live vs fresh model: |a-b| <= 1e-12*(1+|b|) and equal shapes (both sides are lambdify of the same "
                             "sympy expressions: observed difference 0); live vs harness' own float evaluation: 1e-9 relative")
    # ---- K: Canary.trace on the extracted facts against the live model, op by op
    files, shard = [], 60
    for s in range(0, len(hs), shard):
        body = ";\n ".join(coq_case(h, r[0]) for h, r in zip(hs[s:s + shard], results[s:s + shard]))
        files.append(("c08_cases_%d" % (s // shard),
                      COQ_HEAD + "Definition cases := [\n " + body + "].\nEval vm_compute in failing (chk facts) cases.\n"))
    t0 = time.time()
    outs = ck.coq_eval_many(files)
    ck.notes["coq_cases_wall_s"] = round(time.time() - t0, 1)
    disagree = []
    for s in range(0, len(hs), shard):
        disagree += [s + i for i in common.parse_int_list(outs["c08_cases_%d" % (s // shard)][0])]
    ck.notes["correspondence_cases"] = len(hs)
    ck.notes["correspondence_ops"] = sum(len(h["ops"]) for h in hs)
    ck.notes["correspondence_disagreements"] = len(disagree)
    if disagree:
        h = hs[disagree[0]]
        ck.broken.append(dict(theorem="correspondence Canary.trace vs live SimulateOde (flags / recompile set / status)",
                              file="c08_cases", error="model and implementation differ on history %s ; seen %s"
                              % (json.dumps(h), json.dumps(results[disagree[0]][0]))[:3000]))
    # ---- search: the property stated directly on the implementation
    done = set()
    for h, (seen, fails) in zip(hs, results):
        for f in fails:
            cls = classify(h, f)
            if cls in done:
                ck.violation(cls, f["what"], h)
                continue
            done.add(cls)
            hm, fm = shrink(h, f, canary, registered)
            hm = dict(hm, fail=dict(at=fm["at"], e=fm["e"], kind=fm["kind"]))
            ck.violation(classify(hm, fm), "after %s: %s" % (describe(hm), fm["what"]), hm)
            break
    ck.case(dict(kind="deepcopy"), nontrivial=True)
    for cls, what in copy_check():
        ck.violation(cls, what, dict(kind="deepcopy"))
    # "and the rest": the evaluators computed from the compiled ones, each one evaluated first after a modification
    probe = build(new_def(dict(states=list(STATES), params=["p0", "p1"], base=[dict(op="mut", how="add_event_E", rate=dict(k="mass", p="p0", X="S", Y="I"),
                                                                                       tr=[dict(tt="T", o="S", d="I", mag=1)])])), [0.5, 0.25])
    for mut in COMP_MUTS:
        for name in composites(probe):
            inp = dict(kind="composite", how=mut["how"], name=name)
            ck.case(inp, nontrivial=True)
            bad = composite_case(mut["how"], name)
            if bad:
                ck.violation("stale-composite/%s/%s" % (mut["how"], name.split("_")[0]), bad, inp)
    ck.assumptions += [
        "a compiled evaluator is abstracted to the snapshot (definition, arity of self._sp, values) it was built from; "
        "sympy/lambdify is an oracle: same expressions and arguments => same numbers",
        "domain: a rate only uses parameters that already have a value; new parameter names are new; "
        "state_list growth and the `state` value setter are not part of the histories (not listed by the property)",
        "a mutator that raises is assumed to leave the definition unchanged (not checked: see REPORT, partial param_list)",
        "the hessian evaluator is outside the add_func mechanism and raises on every model of this tree; not covered",
    ]


# ------------------------------------------------------------------ "and the rest": evaluators built on top of the compiled ones
COMP_X, COMP_T = np.array([2.0, 1.5, 0.75]), 0.5


def composites(m):
    """name -> thunk for the public evaluators that are computed from the compiled ones (time-first aliases, sensitivity and adjoint
    right-hand sides and their Jacobians, interpolated adjoints, linear_ode)"""
    nS, nP = m.num_state, m.num_param
    x, t = COMP_X[:nS], COMP_T
    S = np.linspace(0.1, 0.9, nS * nP)
    lam = np.array([0.3, -0.2, 0.5][:nS])
    z = np.concatenate([x, S])
    ziv = np.concatenate([x, S, np.eye(nS).ravel()])
    interp = [(lambda tt, v=v: v) for v in x]
    return {
        "ode_T": lambda: m.ode_T(t, x), "jacobian_T": lambda: m.jacobian_T(t, x), "grad_T": lambda: m.grad_T(t, x),
        "sensitivity": lambda: m.sensitivity(S, t, x), "sensitivity_T": lambda: m.sensitivity_T(t, S, x),
        "ode_and_sensitivity": lambda: m.ode_and_sensitivity(z, t), "ode_and_sensitivity_T": lambda: m.ode_and_sensitivity_T(t, z),
        "ode_and_sensitivity_jacobian": lambda: m.ode_and_sensitivity_jacobian(z, t),
        "ode_and_sensitivityIV": lambda: m.ode_and_sensitivityIV(ziv, t),
        "ode_and_sensitivityIV_jacobian": lambda: m.ode_and_sensitivityIV_jacobian(ziv, t),
        "adjoint": lambda: m.adjoint(lam, t, x), "adjoint_T": lambda: m.adjoint_T(t, lam, x),
        "adjoint_interpolate": lambda: m.adjoint_interpolate(lam, t, interp),
        "adjoint_interpolate_T": lambda: m.adjoint_interpolate_T(t, lam, interp),
        "adjoint_jacobian": lambda: m.adjoint_jacobian(lam, t, x),
        "adjoint_interpolate_jacobian": lambda: m.adjoint_interpolate_jacobian(lam, t, interp),
        "linear_ode": lambda: float(bool(m.linear_ode())),
    }


COMP_MUTS = [dict(op="mut", how="add_event_T", rate=dict(k="mass", p="p1", X="R", Y="S"), tr=[dict(tt="T", o="R", d="S", mag=1)]),
             dict(op="mut", how="add_ode", o="S", rate=dict(k="lin", p="p0", X="R", Y="S")),
             dict(op="mut", how="param_list")]


def composite_case(how, name):
    """[evaluate everything; modify; evaluate `name` FIRST] vs a freshly constructed model.  -> None or what fails"""
    h = dict(states=list(STATES), params=["p0", "p1"],
             base=[dict(op="mut", how="add_event_E", rate=dict(k="mass", p="p0", X="S", Y="I"), tr=[dict(tt="T", o="S", d="I", mag=1)]),
                   dict(op="mut", how="add_ode", o="R", rate=dict(k="lin", p="p1", X="I", Y="S"))])
    mut = [q for q in COMP_MUTS if q["how"] == how][0]
    live = build(new_def(h), [0.5, 0.25])
    for f in composites(live).values():
        try:
            f()
        except BaseException:      # noqa: B902
            pass
    if how == "param_list":
        live.param_list = ["p2"]
        live.parameters = [0.5, 0.25, 0.125]
        fresh = build(new_def(dict(h, params=["p0", "p1", "p2"])), [0.5, 0.25, 0.125])
    else:
        do_mut(live, mut)
        fresh = build(new_def(dict(h, base=h["base"] + [mut])), [0.5, 0.25])
    try:
        want = np.asarray(composites(fresh)[name](), dtype=float)
    except BaseException:      # noqa: B902   (nothing to compare with)
        return None
    try:
        got = np.asarray(composites(live)[name](), dtype=float)
    except BaseException as e:      # noqa: B902
        return "after [everything evaluated; %s%s]: %s raised %s: %s; a freshly constructed model returns %s" % (
            how, "; parameters=list" if how == "param_list" else "", name, type(e).__name__, str(e)[:100], np.round(want, 6).ravel().tolist()[:8])
    if got.shape != want.shape or not close(got, want):
        return "after [everything evaluated; %s]: %s returned %s; a freshly constructed model returns %s" % (
            how, name, np.round(got, 6).ravel().tolist()[:8], np.round(want, 6).ravel().tolist()[:8])
    return None


def copy_check():
    """a deep copy of a model whose evaluators have been compiled is a model of its own: after its parameters are changed every
    evaluator of the copy answers like a freshly built model with those values, and the original keeps answering with its own.
    -> list of (cls, what)"""
    import copy
    out = []
    h = dict(states=list(STATES), params=["p0", "p1"],
             base=[dict(op="mut", how="add_event_E", rate=dict(k="mass", p="p0", X="S", Y="I"), tr=[dict(tt="T", o="S", d="I", mag=1)]),
                   dict(op="mut", how="add_event_E", rate=dict(k="lin", p="p1", X="I", Y="R"), tr=[dict(tt="T", o="I", d="R", mag=2)]),
                   dict(op="mut", how="add_ode", o="R", rate=dict(k="lin", p="p1", X="I", Y="S"))])
    defn = new_def(h)
    x = np.array([2.0, 1.5, 0.75])
    v_old, v_new = [0.5, 0.25], [1.75, 0.125]
    live = build(defn, v_old)
    for e in EVALS11:
        try:
            getattr(live, e)(x, 0.0)
        except BaseException:      # noqa: B902
            pass
    cp = copy.deepcopy(live)
    cp.parameters = list(v_new)
    fresh_new, fresh_old = build(defn, v_new), build(defn, v_old)
    for who, mdl, ref in (("the deep copy (parameters changed on it)", cp, fresh_new), ("the original (after its copy was changed)", live, fresh_old)):
        for e in EVALS11:
            try:
                want = np.asarray(getattr(ref, e)(x, 0.0), dtype=float)
            except BaseException:      # noqa: B902
                continue
            try:
                got = np.asarray(getattr(mdl, e)(x, 0.0), dtype=float)
            except BaseException as ex:      # noqa: B902
                out.append(("error-after-deepcopy", "%s: %s raised %r" % (who, e, ex)))
                continue
            if not close(got, want):
                out.append(("stale-after-deepcopy", "%s: %s returned %s; a freshly constructed model with those values returns %s"
                            % (who, e, np.round(got, 6).tolist(), np.round(want, 6).tolist())))
    # ... a copy that is evaluated first (with the values it was copied with) and given other values afterwards; then the ORIGINAL is
    # given a third set of values: each of the two answers with its own
    v_third = [0.875, 1.5]
    cp3 = copy.deepcopy(live)
    for e in EVALS11:
        try:
            getattr(cp3, e)(x, 0.0)
        except BaseException:      # noqa: B902
            pass
    cp3.parameters = list(v_new)
    live.parameters = list(v_third)
    fresh_third = build(defn, v_third)
    for who, mdl, ref in (("a deep copy that was evaluated and then given other parameter values", cp3, fresh_new),
                          ("the original (given other values after its copy was)", live, fresh_third)):
        for e in EVALS11:
            try:
                want = np.asarray(getattr(ref, e)(x, 0.0), dtype=float)
            except BaseException:      # noqa: B902
                continue
            try:
                got = np.asarray(getattr(mdl, e)(x, 0.0), dtype=float)
            except BaseException as ex:      # noqa: B902
                out.append(("error-after-deepcopy", "%s: %s raised %r" % (who, e, ex)))
                continue
            if not close(got, want):
                out.append(("stale-after-deepcopy", "%s: %s returned %s; a freshly constructed model with those values returns %s"
                            % (who, e, np.round(got, 6).tolist(), np.round(want, 6).tolist())))
    live.parameters = list(v_old)
    # ... and a process added to the copy belongs to the copy: its evaluators follow, the original's do not
    extra = dict(op="mut", how="add_event_E", rate=dict(k="lin", p="p0", X="R", Y="S"), tr=[dict(tt="T", o="R", d="S", mag=1)])
    cp2 = copy.deepcopy(live)
    do_mut(cp2, extra)
    defn2 = new_def(dict(h, base=h["base"] + [extra]))
    fresh2 = build(defn2, v_old)
    for who, mdl, ref in (("a deep copy to which a process was added", cp2, fresh2), ("the original (a process was added to its copy)", live, fresh_old)):
        for e in EVALS11:
            try:
                want = np.asarray(getattr(ref, e)(x, 0.0), dtype=float)
            except BaseException:      # noqa: B902
                continue
            try:
                got = np.asarray(getattr(mdl, e)(x, 0.0), dtype=float)
            except BaseException as ex:      # noqa: B902
                out.append(("error-after-deepcopy", "%s: %s raised %r" % (who, e, ex)))
                continue
            if not close(got, want):
                out.append(("stale-after-deepcopy", "%s: %s returned %s; a freshly constructed model with that definition returns %s"
                            % (who, e, np.round(got, 6).tolist(), np.round(want, 6).tolist())))
    return out[:3]


def describe(h):
    out = []
    for op in h["ops"]:
        if op["op"] == "mut": out.append(op["how"])
        elif op["op"] == "set": out.append("parameters=" + op["form"])
        else: out.append(op["e"] + "()")
    return "[" + "; ".join(out) + "]"


def replay(ck, data):
    h = data["input"]
    if h.get("kind") == "deepcopy":
        v = copy_check()
        return v[0][1] if v else None
    if h.get("kind") == "composite":
        return composite_case(h["how"], h["name"])
    _, canary, registered = facts_lists()
    f = first_failure(h, canary, registered)
    return f["what"] if f else None
