"""Self-test of the C02 check: apply small semantic mutations to the anchored pygom code in $PYGOM_REPO (a private
worktree!), run ./check C02, restore.  Usage: PYGOM_REPO=... python harness/c02_mutations.py [quick|thorough] [name ...]
Prints one line per mutation: exit code, route (broken obligation / correspondence / search classes)."""
import json, os, subprocess, sys, time

VERIF = os.path.dirname(os.path.dirname(os.path.abspath(__file__)))
REPO = os.environ["PYGOM_REPO"]
assert REPO not in ("/repo", "/repo/"), "never mutate /repo"
OU = "src/pygom/model/ode_utils/__init__.py"
DET = "src/pygom/model/deterministic.py"
SIM = "src/pygom/model/simulate.py"

MUTATIONS = [
    # (name, kind, file / sha, old, new)
    ("revert-017de9b (r.y alias)", "revert", "017de9b", None, None),
    ("revert-cd39b4d (1x1 jacobian collapses)", "revert", "cd39b4d", None, None),
    ("settime: np.append(t, t0) (argument order)", "edit", DET, "t = np.append(self._t0, t)", "t = np.append(t, self._t0)"),
    ("_integrate2: grid t[0::] (off by one)", "edit", DET, "t[0], t[1::],", "t[0], t[0::],"),
    ("_integrate2: includeOrigin=False", "edit", DET, "includeOrigin=True,", "includeOrigin=False,"),
    ("setup: 'vode'/'ivode' swapped (wrong dispatch)", "edit2", OU,
     [("elif method == 'vode':", "elif method == 'iv0de':"), ("elif method == 'ivode':", "elif method == 'vode':"),
      ("elif method == 'iv0de':", "elif method == 'ivode':")], None),
    ("funcjac: re-setup from x0 instead of o1 (stale state)", "edit", OU,
     "r = _setupIntegrator(func, jac, o1, deltaT, args, method, nsteps)",
     "r = _setupIntegrator(func, jac, x0, deltaT, args, method, nsteps)"),
    ("funcjac: origin flag inverted", "edit", OU, "    if includeOrigin:\r\n        solution.append(x0)",
     "    if not includeOrigin:\r\n        solution.append(x0)"),
    ("funcjac: full_output branch drops the per-step re-setup", "edit", OU,
     "            r = _setupIntegrator(func, jac, o1, deltaT, args, method, nsteps)\r\n", ""),
    ("funcjac: append before stepping (row shifted)", "edit", OU,
     "        # append solution, same thing whether the output is full or not\r\n        solution.append(o1)",
     "        solution.insert(max(len(solution) - 1, 0), o1)"),
    ("odeint wrapper: col_deriv=True (transposed Jacobian)", "edit", OU, "col_deriv=False,", "col_deriv=True,"),
    ("tolerances: atol = rtol = 1e-4", "edit2", OU, [("atol = 1e-10", "atol = 1e-4"), ("rtol = 1e-10", "rtol = 1e-4")], None),
    ("eig rule: unknown integrator name 'rk45'", "edit", OU, "intName = 'dopri5'", "intName = 'rk45'"),
    ("solve_determ: integrates t[1:] (drops first time)", "edit", SIM,
     "                solution = self.integrate(t)\r\n                return solution",
     "                solution = self.integrate(t[1:])\r\n                return solution"),
    ("initial_time setter ignores t0 (stale origin)", "edit", DET, "        if isinstance(t0, Number):\r\n            self._t0 = t0",
     "        if isinstance(t0, Number):\r\n            self._t0 = t0 * 0"),
    ("integrate: passes odeTime[1:] to _integrate", "edit", DET, "return self._integrate(self._odeTime, full_output)",
     "return self._integrate(self._odeTime[1:], full_output)"),
    ("integrate: stale full_output flag (always True)", "edit", DET, "return self._integrate(self._odeTime, full_output)",
     "return self._integrate(self._odeTime, True)"),
    ("one_step: plain branch returns a view r.y[:] (alias)", "edit", OU,
     "            return r.y.copy()", "            return r.y[:]"),
]


def sh(cmd, **kw):
    return subprocess.run(cmd, shell=True, stdout=subprocess.PIPE, stderr=subprocess.STDOUT, text=True, **kw)


def restore():
    sh("git -C %s reset -q --hard HEAD" % REPO)


def apply(m):
    name, kind, f, old, new = m
    if kind == "revert":
        r = sh("git -C %s revert --no-commit %s" % (REPO, f))
        if r.returncode:
            raise RuntimeError(r.stdout)
        return
    p = os.path.join(REPO, f)
    s = open(p, newline="").read()
    pairs = [(old, new)] if kind == "edit" else old
    for a, b in pairs:
        if a not in s:
            a2 = a.replace("\r\n", "\n")
            if a2 not in s:
                raise RuntimeError("pattern not found: %r" % a)
            a, b = a2, b.replace("\r\n", "\n")
        s = s.replace(a, b, 1)
    open(p, "w", newline="").write(s)


def main():
    tier = sys.argv[1] if len(sys.argv) > 1 else "quick"
    only = sys.argv[2:]
    rows = []
    for m in MUTATIONS:
        if only and not any(o in m[0] for o in only):
            continue
        restore()
        try:
            apply(m)
            t = time.time()
            r = sh("./check C02 --tier %s" % tier, cwd=VERIF, env=dict(os.environ, PYGOM_REPO=REPO))
            dt = time.time() - t
            ev = json.load(open(os.path.join(VERIF, "evidence", "C02.json")))
            cov = ev["coverage"]
            broken = [b["theorem"] for b in cov.get("broken", [])]
            classes = sorted(set(l.split("]")[0].split("[")[1] for l in r.stdout.splitlines() if l.startswith("  -> [")))
            nofail = "no-failing-input-found" in r.stdout
            rows.append((m[0], r.returncode, broken, classes, nofail, round(dt)))
            print("%-62s exit=%d  broken=%s  search=%s%s  %ds" % (m[0], r.returncode, broken, classes,
                                                                  " (no failing input)" if nofail else "", dt), flush=True)
            if r.returncode == 2:
                print(r.stdout[-1500:])
        finally:
            restore()
    r = sh("git -C %s status --short" % REPO)
    print("worktree after restore:", r.stdout.strip() or "clean")


if __name__ == "__main__":
    main()
