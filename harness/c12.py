"""C12 — equivalent ways of specifying a model give the same model."""
import json, time
from collections import Counter
from fractions import Fraction
import numpy as np
import common
import modelgen as mg
import c01

COQ_HEAD = c01.COQ_HEAD + """
(* two route assignments of the same process set: the event lists pygom holds (read back) give the same
   right-hand side under the extracted tables, and it is what pygom reports for each *)
Definition c12case := (lit * lit * Q * list Q * list Q)%type.
Definition chk12 (c : c12case) : bool :=
  let '(la, lb, eps, odea, odeb) := c in
  let ma := mk la in let mb := mk lb in
  vec_close eps (q_ode ma) odea && vec_close eps (q_ode mb) odeb && vec_close eps (q_ode ma) odeb &&
  forallb (fun i => Qc_eq_bool (q_ode ma i) (q_ode mb i)) (seq O (nS ma)).
"""


def readback(m, d):
    """pygom's normalised event list as definition-style structure (names -> indices)"""
    S = [str(s) for s in m.state_list]
    evs = []
    for e in m.event_list:
        trs = []
        for t in e.transition_list:
            ty = t.transition_type.name
            trs.append(dict(ty=ty, o=S.index(str(t.origin)) if ty in ("D", "T") else None,
                            d=S.index(str(t.destination)) if ty in ("B", "T") else None, mag=str(t._magnitude)))
        evs.append(dict(rate=str(e.rate), kind="readback", trans=trs))
    odes = [dict(state=S.index(str(o.origin)), eqn=str(o.equation)) for o in m.ode_list]
    return dict(d, events=evs, odes=odes)


def canon(d):
    """multiset of processes, order-free"""
    c = Counter()
    for e in d["events"]:
        c[(e["rate"].replace(" ", ""), tuple(sorted((t["ty"], t["o"], t["d"], t["mag"]) for t in e["trans"])))] += 1
    for o in d["odes"]:
        c[("ode", o["state"], o["eqn"].replace(" ", ""))] += 1
    return c


def explicit_route_check(d, dd, pt, m_ref):
    """the same process set entered as explicit ODE equations: one ODE Transition per (process, touched state), written from
    the definition's strings (never from pygom's output); -> None or a description of the difference"""
    import pg, sympy
    S = d["states"]
    odes = []
    for e in d["events"]:
        for tr in e["trans"]:
            if tr["ty"] in ("T", "D"):
                odes.append(pg.Transition(origin=S[tr["o"]], equation="-(%s)*(%s)" % (tr["mag"], e["rate"]), transition_type="ODE"))
            if tr["ty"] in ("T", "B"):
                odes.append(pg.Transition(origin=S[tr["d"]], equation="(%s)*(%s)" % (tr["mag"], e["rate"]), transition_type="ODE"))
    for o in d["odes"]:
        odes.append(pg.Transition(origin=S[o["state"]], equation=o["eqn"], transition_type="ODE"))
    kw = dict(state=mg.decl_states(dd), param=list(d["params"]), ode=odes)
    if d["derived"]:
        kw["derived_param"] = [(k, v) for k, v in d["derived"]]
    try:
        m = pg.model(**kw)
        a, b = m.get_ode_eqn(), m_ref.get_ode_eqn()
        for i in range(len(S)):
            if sympy.simplify(a[i] - b[i]) != 0:
                return "ode[%d] differs: explicit-ODE route %s, Event route %s" % (i, a[i], b[i])
        vals = {p: float(pt[p]) for p in d["params"]}
        m.parameters = vals; m_ref.parameters = vals
        x = np.array([float(pt[s]) for s in S]); t = float(pt["t"])
        fa, fb = np.asarray(m.ode(x, t), float), np.asarray(m_ref.ode(x, t), float)
        ja, jb = np.asarray(m.jacobian(x, t), float), np.asarray(m_ref.jacobian(x, t), float)
        if not (np.allclose(fa, fb, rtol=1e-11, atol=1e-11) and np.allclose(ja, jb, rtol=1e-10, atol=1e-10)):
            return "ode/jacobian of the explicit-ODE route differ from the Event route at %s: %s vs %s" % (x.tolist(), fa.tolist(), fb.tolist())
    except Exception as e:          # noqa: BLE001
        return "explicit-ODE route cannot be built / evaluated: %s: %s" % (type(e).__name__, str(e)[:200])
    return None


class RealBackend:
    """the running pygom, driven through the same scenarios as the interpreter of gen/gen_routes.py"""
    def T(self, **kw):
        import pg
        return pg.Transition(**kw)
    def Tpos(self, *args):
        import pg
        return pg.Transition(*args)
    def enum(self, name):
        import pg
        return getattr(pg.TransitionType, name)
    def E(self, *a, **kw):
        import pg
        return pg.Event(*a, **kw)
    def new_model(self):
        import pg
        return pg.model(state=["o", "d"], param=["r", "m0", "m1"])
    def call(self, m, name, arg): return getattr(m, name)(arg)
    def set(self, m, name, v): return setattr(m, name, v)


def routes_correspondence(ck, gen_routes):
    """K for the routes translator: the table the interpreter derives from the source against the same scenarios on the running code"""
    SLOT, MAG = gen_routes.SLOT, gen_routes.MAG

    def read(m):
        out = []
        for ev in m._eventList:
            trs = [(t.transition_type.name, SLOT.get(getattr(t, "_orig_state", None), "?"), SLOT.get(getattr(t, "_dest_state", None), "?"),
                    MAG.get(str(t._magnitude), -1)) for t in ev.transition_list]
            out.append((ev.rate == "r", trs))
        return out

    def snapshot(t):
        return {k: (v.name if hasattr(v, "name") and hasattr(v, "value") else v) for k, v in vars(t).items()}

    def sym_snapshot_equal(a, b):
        return a == b
    real = gen_routes.run_table(RealBackend(), read, lambda m: True, snapshot,
                                lambda m, o: (m._odeList == [o] and m._eventList == [] and o._orig_state == "o" and o._equation == "r"),
                                Exception)
    try:
        sym = gen_routes.sym_table()
    except Exception as e:          # noqa: BLE001  (the translator failed closed: already reported as a broken obligation)
        ck.notes["routes_correspondence"] = "interpreter side skipped: translator failed closed (%s)" % str(e)[:120]
        sym = None
    diffs = []
    if sym is None:
        sym = dict(rows=[], reuse=real["reuse"], order=real["order"], ode_ok=real["ode_ok"], bad=real["bad"])
    for (n1, k1, o1), (n2, k2, o2) in zip(sym["rows"], real["rows"]):
        a = o1 if o1[0] == "Raised" else ("Stored", o1[1])
        b = o2 if o2[0] == "Raised" else ("Stored", o2[1])
        ck.case(dict(kind="route-scenario", route=n1, process=k1), nontrivial=True)
        if a != b:
            diffs.append("%s / %s: interpreter %s, running code %s" % (n1, k1, a, b))
    for key in ("reuse", "order", "ode_ok", "bad"):
        if sym[key] != real[key]:
            diffs.append("%s: interpreter %s, running code %s" % (key, sym[key], real[key]))
    if not isinstance(ck.notes.get("routes_correspondence"), str):
        ck.notes["routes_correspondence"] = dict(scenarios=len(sym["rows"]), refused_inputs=len(sym["bad"]), disagreements=len(diffs))
    if diffs:
        ck.broken.append(dict(theorem="correspondence: routes table (source run by gen/minipy.py) vs the running constructors / add_* methods",
                              file="c12 routes", error="; ".join(diffs)[:1500]))
    # the property on the running code, stated directly: every route stores the canonical event, refuses malformed input,
    # leaves the caller's objects alone
    canon = {"PT": [("T", "SO", "SD", 0)], "PD": [("D", "SO", "SNone", 0)], "PBd": [("B", "SNone", "SD", 0)],
             "PBo": [("B", "SNone", "SO", 0)], "PT1": [("T", "SO", "SD", 2)], "PTD": [("T", "SO", "SD", 0), ("D", "SD", "SNone", 1)]}

    def same(trs, want):
        if len(trs) != len(want): return False
        for (ty, o, d, mg), (wty, wo, wd, wmg) in zip(trs, want):
            if ty != wty or mg != wmg: return False
            if ty in ("T", "D") and o != wo: return False
            if ty in ("T", "B") and d != wd: return False
        return True
    for name, kind, out in real["rows"]:
        if out[0] == "Raised" or len(out[1]) != 1 or out[1][0][0] is not True or not same(out[1][0][1], canon[kind]):
            ck.violation("route-not-normalised", "route '%s' given a %s process holds %s in the model's event list; the process is rate r with "
                         "transitions %s" % (name, kind, out, canon[kind]), dict(kind="route-scenario", route=name, process=kind))
    for k, b in real["reuse"]:
        if not b:
            ck.violation("route-mutates-definition", "add_event changed the %s Transition object it was given" % k,
                         dict(kind="route-reuse", process=k))
    for n, b in real["bad"]:
        if not b:
            ck.violation("malformed-definition-accepted", "'%s' was accepted" % n, dict(kind="route-refused", name=n))


# processes that look alike: the same transition twice, and the same endpoints and rate with different jump sizes
# (two processes are two processes, whatever route they come in by)
CORPUS_DEFS = [
    dict(states=["S", "I", "R"], params=["beta", "gamma"], derived=[], odes=[],
         events=[dict(rate="beta*S", kind="linear", trans=[dict(ty="T", o=0, d=1, mag="1")]),
                 dict(rate="beta*S", kind="linear", trans=[dict(ty="T", o=0, d=1, mag="1")]),
                 dict(rate="gamma*I", kind="linear", trans=[dict(ty="T", o=1, d=2, mag="1")])]),
    dict(states=["S", "I", "R"], params=["beta", "gamma"], derived=[], odes=[],
         events=[dict(rate="beta*S", kind="linear", trans=[dict(ty="T", o=0, d=1, mag="1")]),
                 dict(rate="beta*S", kind="linear", trans=[dict(ty="T", o=0, d=1, mag="3")]),
                 dict(rate="gamma", kind="const", trans=[dict(ty="B", o=None, d=0, mag="2")]),
                 dict(rate="gamma", kind="const", trans=[dict(ty="B", o=None, d=0, mag="1")]),
                 dict(rate="gamma*R", kind="linear", trans=[dict(ty="D", o=2, d=None, mag="1")]),
                 dict(rate="gamma*R", kind="linear", trans=[dict(ty="D", o=2, d=None, mag="1")])]),
]


def variants(d, rng):
    nproc = len(d["events"]) + len(d["odes"])
    out = []
    for route in ("event", "legacy", "mixed", "incremental", "mixed", "split"):
        order = [int(x) for x in rng.permutation(nproc)]
        dd = dict(d, decl=["list", "comma", "space", "mixed"][int(rng.integers(0, 4))])
        out.append((route, order, dd))
    return out


def run(ck):
    import gen_assembly
    ck.rule = ("random process sets entered through 5 route assignments (per process one of: Event with rate, Event whose single or one-of-several member Transition carries the rate, a solitary Transition handed to Event, add_event / add_transition / add_birth_death after construction, legacy transition & birth_death "
               "lists incl. births by origin / per-process random mix incl. Transition-with-own-rate in an Event / "
               "incremental add_*), random process orders and list/comma/space declarations; non-trivial = >= 2 events, "
               "one single-transition (so the legacy route really differs); distinct by JSON hash")
    import gen_routes
    ck.coq_build("C12", [("AssemblyGen", gen_assembly.generate()), ("RoutesGen", gen_routes.generate())],
                 extra=("Util.vo", "AssemblyQc.vo", "Routes.vo"))
    common.name_assumptions(ck, "C12")
    routes_correspondence(ck, gen_routes)
    rng = np.random.default_rng(ck.seed)
    N = ck.budget(70, 700)
    cases = []
    t_end = time.time() + ck.budget(90, 600)
    dist = Counter()
    for k in range(N):
        if time.time() > t_end:
            break
        d = dict(CORPUS_DEFS[k]) if k < len(CORPUS_DEFS) else mg.gen_definition(rng, min_events=1)
        nt = len(d["events"]) >= 2 and any(len(e["trans"]) == 1 for e in d["events"])
        ck.case(dict(definition=d), nontrivial=nt)
        pt = mg.random_point(rng, d)
        built = []
        for route, order, dd in variants(d, rng):
            dist[route] += 1
            inp = dict(definition=d, route=route, order=order, decl=dd["decl"], seed=k, reuse=bool(dist[route] % 2 == 0))
            try:
                m, _ = mg.build(dd, route=route, rng=np.random.default_rng(k), order=order, reuse=inp["reuse"])
                rb = readback(m, d)
                pv = c01.pyg_values(m, rb, pt)
                built.append((route, order, m, rb, pv, inp))
            except Exception as e:
                ck.violation("build-error/" + route, "%s: %s" % (type(e).__name__, str(e)[:200]), inp)
        if not built:
            continue
        ref = built[0]
        if ref[0] == "event" and k % 3 == 1:
            # incremental building WITH looking in between: the reference model has been evaluated above; a process is now
            # added to it through add_event and the result compared with the explicit-ODE entry of the grown definition
            import pg
            d2 = json.loads(json.dumps(d))
            p0, s0 = d["params"][k % len(d["params"])], d["states"][0]
            d2["events"].append(dict(rate="%s*%s" % (p0, s0), kind="linear", trans=[dict(ty="D", o=0, d=None, mag="2")]))
            dist["grown-after-evaluation"] += 1
            try:
                # (its numeric evaluators have been used, i.e. compiled, before it grows; the explicit-ODE model that is built and
                #  evaluated next is a SECOND model in the same process)
                ref[2].parameters = {p_: float(pt[p_]) for p_ in d["params"]}
                x_ = np.array([float(pt[s_]) for s_ in d["states"]])
                ref[2].ode(x_, float(pt["t"])); ref[2].jacobian(x_, float(pt["t"]))
                tr = pg.Transition(origin=s0, transition_type="D", magnitude="2")
                if k % 2:
                    ref[2].add_event(pg.Event(rate="%s*%s" % (p0, s0), transition_list=[tr]))
                else:
                    ref[2].event_list = [pg.Event(rate="%s*%s" % (p0, s0), transition_list=[tr])]
                bad = explicit_route_check(d2, dict(d2, decl="list"), pt, ref[2])
            except Exception as e:          # noqa: BLE001
                bad = "%s: %s" % (type(e).__name__, str(e)[:200])
            if bad:
                ck.violation("grown-model-differs", "model evaluated, then a process added with add_event / event_list: " + bad,
                             dict(definition=d, route="grown", seed=k))
            continue
        if ref[0] == "event" and k % 2 == 0:
            dd = dict(d, decl=["list", "comma", "space"][k % 3])
            dist["explicit"] += 1
            bad = explicit_route_check(d, dd, pt, ref[2])
            if bad:
                ck.violation("explicit-ode-route-differs", bad, dict(definition=d, route="explicit", decl=dd["decl"], seed=k))
        x = np.array([float(pt[s]) for s in d["states"]]); t = float(pt["t"])
        for b in built:
            b[2].parameters = {p: float(pt[p]) for p in d["params"]}
        for b in built[1:]:
            route, order, m, rb, pv, inp = b
            exact = pv["exact"] and ref[4]["exact"]
            # same multiset of processes after normalisation (the split route holds k events for one k-transition process)
            if route != "split" and (canon(rb) != canon(ref[3]) or canon(rb) != canon(d)):
                ck.violation("normalised-process-set-differs/" + route,
                             "route %s holds processes %s, the definition is %s" % (route, sorted(canon(rb).items())[:4], sorted(canon(d).items())[:4]), inp)
                continue
            for i in range(len(d["states"])):
                if not c01.close(pv["ode"][i], ref[4]["ode"][i], exact):
                    ck.violation("ode-differs-between-routes/" + route, "ode[%d]: %s (route %s) vs %s (Event route)"
                                 % (i, pv["ode"][i], route, ref[4]["ode"][i]), inp)
                    break
            # numeric evaluations identical (1e-12), rate vector up to the induced permutation
            try:
                a, bb = np.asarray(m.ode(x, t), float), np.asarray(ref[2].ode(x, t), float)
                ja, jb = np.asarray(m.jacobian(x, t), float), np.asarray(ref[2].jacobian(x, t), float)
                ra = sorted(np.asarray(m.eventRateVector(x, t), float).ravel().tolist())
                rb_ = sorted(np.asarray(ref[2].eventRateVector(x, t), float).ravel().tolist())
                if not (np.allclose(a, bb, rtol=1e-12, atol=1e-12) and np.allclose(ja, jb, rtol=1e-11, atol=1e-11)
                        and (route == "split" or np.allclose(ra, rb_, rtol=1e-12, atol=1e-12))):
                    ck.violation("numeric-differs-between-routes/" + route, "ode/jacobian/eventRateVector differ at %s" % x.tolist(), inp)
            except Exception as e:
                ck.violation("eval-error/" + route, "%s: %s" % (type(e).__name__, str(e)[:200]), inp)
            # K case: Coq on the two read-back event lists
            ea, oa, ex1 = mg.structure(ref[3], pt)
            eb, ob, ex2 = mg.structure(rb, pt)
            eps = "(0 # 1)" if (ex1 and ex2 and exact) else "(1 # 10000000000000000000000000)"
            cases.append(("(%s, %s, %s, %s, %s)" % (mg.coq_model(len(d["states"]), ea, oa), mg.coq_model(len(d["states"]), eb, ob),
                                                   eps, c01.ql(ref[4]["ode"]), c01.ql(pv["ode"])), inp))
    ck.notes["input_distribution"] = dict(dist)
    files = []
    for s in range(0, len(cases), 150):
        files.append(("c12_cases_%d" % (s // 150), COQ_HEAD + "Definition cases : list c12case := [\n " +
                      ";\n ".join(c for c, _ in cases[s:s + 150]) + "].\nEval vm_compute in failing chk12 cases.\n"))
    outs = ck.coq_eval_many(files) if files else {}
    bad = []
    for s in range(0, len(cases), 150):
        bad += [s + i for i in common.parse_int_list(outs["c12_cases_%d" % (s // 150)][0])]
    ck.notes["correspondence_cases"] = len(cases)
    ck.notes["correspondence_disagreements"] = len(bad)
    if bad:
        ck.broken.append(dict(theorem="correspondence: route read-backs under the extracted tables (Coq, Qc) vs pygom",
                              file="c12_cases", error=json.dumps(cases[bad[0]][1])[:1500]))


def replay(ck, data):
    inp = data["input"]
    if str(inp.get("kind", "")).startswith("route-"):
        import gen_routes
        c = common.Check("C12", "quick", 0)
        routes_correspondence(c, gen_routes)
        for v in c.violations:
            if v["input"] == inp:
                return "[%s] %s" % (v["cls"], v["what"])
        return None
    d = inp["definition"]
    rng = np.random.default_rng(inp.get("seed", 0))
    pt = mg.random_point(rng, d)
    m0, _ = mg.build(d, route="event")
    dd = dict(d, decl=inp.get("decl", "list"))
    if inp["route"] == "explicit":
        return explicit_route_check(d, dd, pt, m0)
    if inp["route"] == "grown":
        import pg
        k = inp.get("seed", 0)
        d2 = json.loads(json.dumps(d))
        p0, s0 = d["params"][k % len(d["params"])], d["states"][0]
        d2["events"].append(dict(rate="%s*%s" % (p0, s0), kind="linear", trans=[dict(ty="D", o=0, d=None, mag="2")]))
        m0.parameters = {p: float(pt[p]) for p in d["params"]}
        m0.get_ode_eqn(); m0.ode(np.array([float(pt[s]) for s in d["states"]]), float(pt["t"]))
        tr = pg.Transition(origin=s0, transition_type="D", magnitude="2")
        if k % 2:
            m0.add_event(pg.Event(rate="%s*%s" % (p0, s0), transition_list=[tr]))
        else:
            m0.event_list = [pg.Event(rate="%s*%s" % (p0, s0), transition_list=[tr])]
        return explicit_route_check(d2, dict(d2, decl="list"), pt, m0)
    try:
        m1, _ = mg.build(dd, route=inp["route"], rng=np.random.default_rng(inp.get("seed", 0)), order=inp.get("order"),
                         reuse=bool(inp.get("reuse")))
        p0, p1 = c01.pyg_values(m0, readback(m0, d), pt), c01.pyg_values(m1, readback(m1, d), pt)
    except Exception as e:          # noqa: BLE001
        return "route %s cannot be built / evaluated: %s: %s" % (inp["route"], type(e).__name__, str(e)[:200])
    for i in range(len(d["states"])):
        if not c01.close(p1["ode"][i], p0["ode"][i], p0["exact"] and p1["exact"]):
            return "ode[%d] differs between routes: %s vs %s" % (i, p1["ode"][i], p0["ode"][i])
    return None
