"""Recording one stochastic path of pygom step by step (no repo hooks: module globals are wrapped)."""
import contextlib
import numpy as np
import pg
import pygom.model.simulate as sim
import pygom.model.stochastic_simulation as ss


class Truncated(BaseException):
    """raised from the wrappers to abandon a path that takes too many steps to be worth replaying"""


class Recorder:
    max_calls = 400

    """with Recorder() as r: m.solve_stochast(...)  ->  r.calls: one dict per firstReaction / tauLeap call"""

    def __enter__(self):
        self.calls = []
        self.cur = None
        self._orig = dict(fr=sim.firstReaction, tl=sim.tauLeap, rexp=ss.rexp, rpois=ss.rpois,
                          safety=ss._cy_test_tau_leap_safety)
        rec = self

        def wrap_rate(f):
            def g(x, t):
                r = f(x, t)
                rec.cur["rates"] = [float(v) for v in np.asarray(r).ravel()]
                return r
            return g

        def wrap_vmat(f):
            def g(x, t):
                v = f(x, t)
                rec.cur["changes"] = np.asarray(v, float).tolist()
                rec.cur["changes_shape"] = list(np.asarray(v).shape)
                return v
            return g

        def wrap_pure(f):
            def g(x, t):
                v = f(x, t)
                rec.cur["pure"] = [float(u) for u in np.asarray(v).ravel()]
                return v
            return g

        def fr(x, x_lims, t, vmat, ratef, seed=None):
            if len(rec.calls) >= rec.max_calls:
                raise Truncated()
            rec.cur = dict(kind="FR", x=[float(v) for v in x], t=float(t), clocks=[], lims=[tuple(l) for l in x_lims])
            rec.calls.append(rec.cur)
            try:
                out = rec._orig["fr"](x, x_lims, t, wrap_vmat(vmat), wrap_rate(ratef), seed=seed)
            except BaseException as e:
                rec.cur["raised"] = "%s: %s" % (type(e).__name__, str(e)[:120])
                raise
            rec.cur["out_len"] = len(out)
            if len(out) == 5:
                rec.cur["success"] = bool(out[4])
            return out

        def tl(x, x_lims, t, vmat, lam, ratef, meanf, varf, puref, epsilon=0.03, seed=None, pre_tau=None):
            if len(rec.calls) >= rec.max_calls:
                raise Truncated()
            rec.cur = dict(kind="TL", x=[float(v) for v in x], t=float(t), counts=[], mus=[], lims=[tuple(l) for l in x_lims],
                           epsilon=float(epsilon), pre_tau=pre_tau)
            rec.calls.append(rec.cur)
            try:
                out = rec._orig["tl"](x, x_lims, t, wrap_vmat(vmat), lam, wrap_rate(ratef), meanf, varf, wrap_pure(puref),
                                      epsilon=epsilon, seed=seed, pre_tau=pre_tau)
            except BaseException as e:
                rec.cur["raised"] = "%s: %s" % (type(e).__name__, str(e)[:120])
                raise
            rec.cur["out_len"] = len(out)
            if len(out) == 5:
                rec.cur["success"] = bool(out[4])
            return out

        def rexp(n, rate=1.0, seed=None):
            v = rec._orig["rexp"](n, rate, seed=seed)
            rec.cur["clocks"].append(float(np.asarray(v).ravel()[0]))
            rec.cur.setdefault("clock_rates", []).append(float(rate))
            return v

        def rpois(n, mu=1.0, seed=None):
            v = rec._orig["rpois"](n, mu, seed=seed)
            rec.cur["counts"].append(int(np.asarray(v).ravel()[0]))
            rec.cur["mus"].append(float(mu))
            return v

        def safety(*a, **k):
            out = rec._orig["safety"](*a, **k)
            if isinstance(out, tuple):
                rec.cur["tau"] = float(out[0])
            rec.cur["safety_out"] = repr(out)[:60]
            return out

        sim.firstReaction, sim.tauLeap = fr, tl
        ss.rexp, ss.rpois, ss._cy_test_tau_leap_safety = rexp, rpois, safety
        return self

    def __exit__(self, *a):
        sim.firstReaction, sim.tauLeap = self._orig["fr"], self._orig["tl"]
        ss.rexp, ss.rpois, ss._cy_test_tau_leap_safety = self._orig["rexp"], self._orig["rpois"], self._orig["safety"]
        return False


def schedule(calls):
    """group the recorded calls into loop iterations: ('E', fr) | ('T', tl, fr_or_None)"""
    out, i = [], 0
    while i < len(calls):
        c = calls[i]
        if c["kind"] == "FR":
            out.append(("E", c)); i += 1
        else:
            if c.get("success") is False and c.get("out_len") == 5 and i + 1 < len(calls) and calls[i + 1]["kind"] == "FR" \
                    and any(r != 0 for r in c.get("rates", [])):
                out.append(("T", c, calls[i + 1])); i += 2
            else:
                out.append(("T", c, None)); i += 1
    return out
