"""C02 — deterministic solvers return the ODE solution at each requested time."""
import json, os, sys, time, warnings
from fractions import Fraction
import numpy as np
import common
sys.path.insert(0, os.path.join(common.VERIF, "gen"))

# |row - reference| <= tol * (1 + |reference|), component-wise.  DESIGN.md fixes 1e-5 for both solver families; measured
# on the unchanged tree the odeint path (rtol 1.5e-8) errs by up to ~1.5e-7 and the scipy.integrate.ode path
# (rtol=atol=1e-10) by up to ~1e-8, so to keep >= 100x head-room on both: 3e-5 for odeint, 3e-6 for ode.  Both are
# >= 30x below SEP, the smallest row displacement a non-trivial case can hide.
TOL_ODEINT = 3e-5
TOL_ODE = 3e-6
SEP = 1e-3            # a case is non-trivial when consecutive reference states differ by more than SEP*(1+|x|)
METHODS = [None, "lsoda", "vode", "ivode", "dopri5", "dop853"]

# ------------------------------------------------------------------ catalogue: right-hand sides transcribed by hand
# from the model definitions in pygom/model/common_models.py (independent of pygom's equation assembly)
CATALOGUE = {
    "SIS": dict(states=["S", "I"], rhs=["-beta*S*I/N + gamma*I", "beta*S*I/N - gamma*I"],
                params=dict(beta=0.5, gamma=0.2, N=1.1), x0=[1.0, 0.1], T=12.0),
    "SIR": dict(states=["S", "I", "R"], rhs=["-beta*S*I/N", "beta*S*I/N - gamma*I", "gamma*I"],
                params=dict(beta=0.5, gamma=0.2, N=100.0), x0=[95.0, 5.0, 0.0], T=25.0),
    "SEIR": dict(states=["S", "E", "I", "R"],
                 rhs=["-beta*S*I/N", "beta*S*I/N - alpha*E", "alpha*E - gamma*I", "gamma*I"],
                 params=dict(beta=0.9, alpha=0.5, gamma=0.25, N=50.0), x0=[45.0, 2.0, 3.0, 0.0], T=20.0),
    "SIR_Birth_Death": dict(states=["S", "I", "R", "N"],
                            rhs=["-beta*S*I/N + mu*N - mu*S", "beta*S*I/N - gamma*I - mu*I", "gamma*I - mu*R",
                                 "mu*N - mu*S - mu*I - mu*R"],
                            params=dict(beta=1.2, gamma=0.3, mu=0.05), x0=[8.0, 1.0, 0.5, 9.5], T=10.0),
    "SEIR_Birth_Death": dict(states=["S", "E", "I", "R", "N"],
                             rhs=["-beta*S*I/N + mu*N - mu*S", "beta*S*I/N - alpha*E - mu*E",
                                  "alpha*E - gamma*I - mu*I", "gamma*I - mu*R", "mu*N - mu*S - mu*E - mu*I - mu*R"],
                             params=dict(beta=1.5, alpha=0.6, gamma=0.3, mu=0.04), x0=[8.0, 0.5, 1.0, 0.5, 10.0], T=10.0),
    "Influenza_SLIARD": dict(states=["S", "L", "I", "A", "R", "D"],
                             rhs=["-beta*S*I/N - beta*S*delta*A/N",
                                  "beta*S*I/N + beta*S*delta*A/N - p*kappa*L - (1-p)*kappa*L",
                                  "p*kappa*L - f*alpha*I - (1-f)*alpha*I", "(1-p)*kappa*L - epsilon*A",
                                  "epsilon*A + f*alpha*I", "(1-f)*alpha*I"],
                             params=dict(beta=0.9, delta=0.5, N=20.0, kappa=0.53, p=0.67, epsilon=0.24, alpha=0.24, f=0.98),
                             x0=[18.0, 0.5, 1.0, 0.5, 0.0, 0.0], T=15.0),
    "Lotka_Volterra": dict(states=["x", "y"], rhs=["alpha*x - beta*x*y", "delta*x*y - gamma*y"],
                           params=dict(alpha=1.0, beta=0.5, gamma=0.8, delta=0.3), x0=[2.0, 1.5], T=4.0),
    "Robertson": dict(states=["y1", "y2", "y3"],
                      rhs=["-0.04*y1 + 1e4*y2*y3", "0.04*y1 - 1e4*y2*y3 - 3e7*y2*y2", "3e7*y2*y2"],
                      params={}, x0=[1.0, 0.0, 0.0], T=0.3, stiff=True),
    "SIR_norm": dict(states=["S", "I", "R"], rhs=["-beta*S*I", "beta*S*I - gamma*I", "gamma*I"],
                     params=dict(beta=3.6, gamma=0.2), x0=[0.9, 0.1, 0.0], T=5.0),
    "FitzHugh": dict(states=["V", "R"], rhs=["c*(V - V**3/3 + R)", "-(V - a + b*R)/c"],
                     params=dict(a=0.2, b=0.2, c=3.0), x0=[1.0, -1.0], T=2.0),
    "Lorenz": dict(states=["x", "y", "z"], rhs=["sigma*(y - x)", "x*(rho - z) - y", "x*y - beta*z"],
                   params=dict(beta=8.0 / 3.0, sigma=10.0, rho=28.0), x0=[1.0, 1.0, 1.0], T=0.25),
    # a slowly decaying fast rotation: one long gap between output times costs lsoda thousands of internal steps
    "Spiral": dict(states=["x", "y"], rhs=["-a*x + w*y", "-w*x - a*y"], params=dict(a=0.03, w=5.0), x0=[1.0, 0.5], T=100.0),
    # a seasonally forced model: the right-hand side depends on t (common_models writes 3.14159 for pi)
    "SIS_Periodic": dict(states=["S", "I"], time=True,
                         rhs=["-beta0*(1-delta*cos(2*3.14159*t/period))*S*I/N + gamma*I", "beta0*(1-delta*cos(2*3.14159*t/period))*S*I/N - gamma*I"],
                         params=dict(gamma=1.0, beta0=2.0, delta=0.6, period=5.0, N=1.0), x0=[0.9, 0.1], T=8.0),
    "vanDerPol": dict(states=["y", "x"], rhs=["x", "mu*(1 - y*y)*x - y"], params=dict(mu=1.0), x0=[2.0, 0.0], T=4.0),
}


# ------------------------------------------------------------------ bounded-rate random models
def gen_random_model(rng, nstate=None):
    """events with rates  p*X | p*X*Y/N | p*X/(q+X)  (all <= c*|x| on the positive orthant), T/B/D transitions"""
    n = int(nstate or rng.integers(1, 5))
    states = ["X%d" % i for i in range(n)]
    params = {"N": float(rng.integers(5, 30))}
    events = []

    def newp(lo=0.2, hi=1.6):
        k = "p%d" % (len(params) - 1)
        params[k] = float(round(rng.uniform(lo, hi), 3))
        return k

    def rate(src):
        r = rng.random()
        if r < 0.4 or n == 1 and r < 0.6:
            return "%s*%s" % (newp(), src), "linear"
        if r < 0.7 and n > 1:
            other = states[int(rng.choice([i for i in range(n) if states[i] != src]))]
            return "%s*%s*%s/N" % (newp(0.5, 3.0), src, other), "massaction"
        return "%s*%s/(%s + %s)" % (newp(0.5, 3.0), src, newp(0.5, 3.0), src), "saturating"

    kinds = []
    ne = int(rng.integers(max(1, n - 1), n + 3))
    for _ in range(ne):
        src = states[int(rng.integers(0, n))]
        r = rng.random()
        if n > 1 and r < 0.6:
            dst = states[int(rng.choice([i for i in range(n) if states[i] != src]))]
            rt, kd = rate(src)
            tr = [["T", src, dst]]
        elif r < 0.8:
            rt, kd = rate(src)
            tr = [["D", src, None]]
        else:                       # births: slow linear or saturating rates only (no super-linear growth)
            if rng.random() < 0.5:
                rt, kd = "%s*%s" % (newp(0.05, 0.4), src), "linear"
            else:
                rt, kd = "%s*%s/(%s + %s)" % (newp(0.5, 2.0), src, newp(0.5, 3.0), src), "saturating"
            tr = [["B", None, states[int(rng.integers(0, n))]]]
            if n > 1 and rng.random() < 0.3:      # a second transition fired by the same event
                tr.append(["B", None, states[int(rng.integers(0, n))]])
        events.append(dict(rate=rt, trans=tr))
        kinds.append(kd)
    # every state must move: add a linear death where nothing touches a state
    touched = {s for e in events for t in e["trans"] for s in t[1:] if s}
    for s in states:
        if s not in touched:
            events.append(dict(rate="%s*%s" % (newp(), s), trans=[["D", s, None]]))
            kinds.append("linear")
    x0 = [float(round(rng.uniform(0.5, 6.0), 2)) for _ in range(n)]
    t0 = float(rng.choice([0.0, 0.0, 0.25, -1.0, 3.5]))
    return dict(kind="random", states=states, params=params, events=events, x0=x0, t0=t0,
                T=float(rng.choice([1.0, 2.0, 3.0])), rate_kinds=kinds)


def gen_valid_model(rng, nstate=None):
    """resample until the reference trajectory exists and stays in a well-conditioned box"""
    for _ in range(50):
        spec = gen_random_model(rng, nstate)
        try:
            g = [spec["t0"] + spec["T"] * k / 4.0 for k in range(1, 5)]
            ref = reference(spec, g)
        except common.InternalError:
            continue
        if np.all(np.isfinite(ref)) and ref.max() < 1e3 and ref.min() > -1e-9:
            return spec
    raise common.InternalError("model generator could not produce a well-conditioned model")


def spec_catalogue(name, rng=None):
    c = CATALOGUE[name]
    t0 = 0.0 if rng is None else float(rng.choice([0.0, 0.0, 1.0, -2.0]))
    return dict(kind="catalogue", name=name, states=c["states"], params=dict(c["params"]), x0=list(c["x0"]), t0=t0,
                T=c["T"], stiff=bool(c.get("stiff")))


def rhs_exprs(spec):
    """the model's ODE from the generator's own structures (never from pygom)"""
    import sympy
    names = list(spec["states"]) + list(spec["params"])
    loc = {k: sympy.Symbol(k) for k in names}
    loc["t"] = sympy.Symbol("t")
    if spec["kind"] == "catalogue":
        ex = [sympy.sympify(r, locals=loc) for r in CATALOGUE[spec["name"]]["rhs"]]
    else:
        ex = [sympy.Integer(0)] * len(spec["states"])
        idx = {s: i for i, s in enumerate(spec["states"])}
        for e in spec["events"]:
            r = sympy.sympify(e["rate"], locals=loc)
            for ty, o, d in e["trans"]:
                if ty in ("T", "D"):
                    ex[idx[o]] = ex[idx[o]] - r
                if ty in ("T", "B"):
                    ex[idx[d]] = ex[idx[d]] + r
    # floats are substituted exactly (binary value of the double), as pygom receives them
    sub = {loc[k]: sympy.Rational(*float(v).as_integer_ratio()) for k, v in spec["params"].items()}
    return [e.subs(sub) for e in ex], [loc[s] for s in spec["states"]]


def rhs_func(spec):
    import sympy
    ex, syms = rhs_exprs(spec)
    f = sympy.lambdify([sympy.Symbol("t")] + syms, ex, modules="math")
    return lambda t, y: np.array(f(t, *y), dtype=float)


def reference(spec, grid):
    """independent reference trajectory at [t0] + grid : solve_ivp on our own right-hand side"""
    from scipy.integrate import solve_ivp
    f = rhs_func(spec)
    t0 = spec["t0"]
    x0 = np.array(spec["x0"], dtype=float)
    meth = "Radau" if spec.get("stiff") else "DOP853"
    with warnings.catch_warnings():
        warnings.simplefilter("ignore")
        s = solve_ivp(f, (t0, float(grid[-1])), x0, method=meth, t_eval=np.array(grid, dtype=float),
                      rtol=1e-12, atol=1e-14 if spec.get("stiff") else 1e-12)
    if not s.success or s.y.shape[1] != len(grid):
        raise common.InternalError("reference integrator failed on %s" % json.dumps(spec)[:200])
    return np.vstack([x0, s.y.T])


def reference_mp(spec, grid, digits=30):
    """second opinion on the reference: mpmath Taylor-series solver"""
    import mpmath, sympy
    ex, syms = rhs_exprs(spec)
    f = sympy.lambdify([sympy.Symbol("t")] + syms, ex, modules="mpmath")
    mpmath.mp.dps = digits
    sol = mpmath.odefun(lambda t, y: f(t, *y), mpmath.mpf(spec["t0"]), [mpmath.mpf(v) for v in spec["x0"]], tol=mpmath.mpf(10) ** (-18))
    return np.array([[float(v) for v in sol(mpmath.mpf(float(t)))] for t in grid])


# ------------------------------------------------------------------ pygom side
def build(spec, lambda_backend=True):
    import pg
    if spec["kind"] == "catalogue":
        from pygom import common_models
        if hasattr(common_models, spec["name"]):
            ctor = getattr(common_models, spec["name"])
            m = ctor(dict(spec["params"])) if spec["params"] else ctor()
            if lambda_backend:
                pg.lam(m)
        else:       # a catalogue entry of ours, entered as explicit ODE equations
            c = CATALOGUE[spec["name"]]
            m = pg.model(lambda_backend=lambda_backend, state=list(c["states"]), param=list(c["params"]),
                         ode=[pg.Transition(origin=st, equation=eq, transition_type="ODE") for st, eq in zip(c["states"], c["rhs"])])
            m.parameters = dict(spec["params"])
    else:
        evs = []
        for e in spec["events"]:
            tl = []
            for ty, o, d in e["trans"]:
                kw = dict(transition_type=ty)
                if o: kw["origin"] = o
                if d: kw["destination"] = d
                tl.append(pg.Transition(**kw))
            evs.append(pg.Event(rate=e["rate"], transition_list=tl))
        m = pg.model(lambda_backend=lambda_backend, state=list(spec["states"]), param=list(spec["params"]), event=evs)
        m.parameters = dict(spec["params"])
    m.initial_values = (x0_as_given(spec), np.float64(spec["t0"]))
    return m


def x0_as_given(spec):
    """the initial state in the number type the caller happens to have: floats, Python ints or an int64 array"""
    if spec.get("x0_int") == "list":
        return [int(v) for v in spec["x0"]]
    if spec.get("x0_int") == "array":
        return np.array([int(v) for v in spec["x0"]], dtype=np.int64)
    return np.array(spec["x0"], dtype=float)


def call_entry(m, spec, call, grid):
    """returns dict(rows=ndarray|None, err=str|None, maxev/minev lists when available, e0)"""
    import pg
    from pygom.model import ode_utils
    ent, meth, full, origin = call["entry"], call.get("method"), call.get("full", False), call.get("origin", True)
    t = grid[0] if call.get("scalar_t") else (list(grid) if call.get("t_list") else np.array(grid, dtype=float))
    if call.get("int_t") == "list":        # integer-typed grids: the prepended t0 must not be cast to int
        t = [int(v) for v in grid]
    elif call.get("int_t") == "array":
        t = np.array([int(v) for v in grid], dtype=int)
    out = dict(rows=None, err=None, maxev=None, minev=None)
    try:
        with pg.quiet(), warnings.catch_warnings():
            warnings.simplefilter("ignore")
            if ent == "integrate":
                r = m.integrate(t, full_output=full)
            elif ent == "solve_determ":
                r = m.solve_determ(t, full_output=full)
            elif ent == "integrate2":
                r = m.integrate2(t, full_output=full, method=meth)
            elif ent == "integrateFuncJac":
                r = ode_utils.integrateFuncJac(m.ode_T, m.jacobian_T, x0_as_given(spec), spec["t0"], t,
                                               includeOrigin=origin, full_output=full, method=meth)
            else:
                raise ValueError(ent)
        info = None
        out["tuple"] = isinstance(r, tuple)
        if isinstance(r, tuple):
            r, info = r
        out["rows"] = np.asarray(r, dtype=float)
        if ent == "integrate2":          # the eigenvalues pygom acted on (kept by the model object)
            info = m._odeOutput
        if isinstance(info, dict) and "maxev" in info:
            out["maxev"] = [complex(v).real for v in np.atleast_1d(info["maxev"])]
            out["minev"] = [complex(v).real for v in np.atleast_1d(info["minev"])]
    except Exception as e:           # noqa: BLE001  (any exception from an entry point is an observation)
        out["err"] = "%s: %s" % (type(e).__name__, str(e)[:160])
    return out


def all_calls():
    cs = []
    for full in (False, True):
        cs.append(dict(entry="integrate", full=full))
        cs.append(dict(entry="solve_determ", full=full))
    for meth in METHODS:
        for full in (False, True):
            cs.append(dict(entry="integrate2", method=meth, full=full))
            for origin in (True, False):
                cs.append(dict(entry="integrateFuncJac", method=meth, full=full, origin=origin))
    return cs


def includes_origin(call):
    return call.get("origin", True) if call["entry"] == "integrateFuncJac" else True


# ------------------------------------------------------------------ judging (direct statement of the property)
def tol_of(call):
    return TOL_ODEINT if call["entry"] in ("integrate", "solve_determ") else TOL_ODE


def close(row, ref, tol):
    return row.shape == ref.shape and bool(np.all(np.abs(row - ref) <= tol * (1.0 + np.abs(ref))))


def judge(call, res, ref, grid):
    """ref: rows [x0, x(t_1), ..., x(t_n)].  returns (cls, what, worst_normalised_error) ; cls None = holds"""
    ent = call["entry"]
    n = 1 if call.get("scalar_t") else len(grid)
    if res["err"] is not None and call.get("refusal_ok") and res["err"].startswith("IntegrationError"):
        return None, None, None             # an explicit refusal where the step budget cannot cover the interval: not a wrong answer
    if res["err"] is not None:
        return "raises:" + ent, "%s(%s) raised %s" % (ent, fmt_call(call), res["err"]), None
    rows = res["rows"]
    if ent != "solve_determ" and bool(res.get("tuple")) != bool(call.get("full")):
        return ("return-shape:" + ent, "%s(%s) returned %s" % (ent, fmt_call(call), "a (solution, output) pair although "
                "full_output=False" if res.get("tuple") else "a bare array although full_output=True"), None)
    want = ref[:n + 1] if includes_origin(call) else ref[1:n + 1]
    if rows.ndim != 2 or rows.shape[0] != want.shape[0] or rows.shape[1] != want.shape[1]:
        return ("row-count:" + ent, "%s(%s) returned an array of shape %s for %d requested times (expected %s)"
                % (ent, fmt_call(call), rows.shape, n, want.shape), None)
    err = np.abs(rows - want) / (1.0 + np.abs(want))
    worst = float(err.max()) if err.size else 0.0
    if worst > tol_of(call):
        i = int(np.argmax(err.max(axis=1)))
        alias = all(close(rows[k], want[-1], tol_of(call)) for k in range(1 if includes_origin(call) else 0, rows.shape[0]))
        extra = " (every row equals the final state)" if alias and rows.shape[0] > 1 + int(includes_origin(call)) else ""
        return ("rows-wrong:" + ent, "%s(%s): row %d is %s but the ODE solution there is %s%s"
                % (ent, fmt_call(call), i, np.array2string(rows[i], precision=8), np.array2string(want[i], precision=8), extra),
                worst)
    return None, None, worst


def fmt_call(call):
    return ", ".join("%s=%s" % (k, call[k]) for k in ("method", "full", "origin", "scalar_t", "t_list") if k in call)


def token_sets(call, res, ref, grid):
    """for every returned row: the tokens (0 = x0, k = k-th requested time) whose reference state it matches"""
    n = 1 if call.get("scalar_t") else len(grid)
    return [[j for j in range(n + 1) if close(r, ref[j], tol_of(call))] for r in res["rows"]]


# ------------------------------------------------------------------ Coq case emission
def q_of(x):
    fr = Fraction(round(float(x), 6)).limit_denominator(10 ** 6)
    return "(%d # %d)" % (fr.numerator, fr.denominator) if fr >= 0 else "(-%d # %d)" % (-fr.numerator, fr.denominator)


def coq_entry(call):
    b = lambda v: "true" if v else "false"
    m = call.get("method")
    ms = "None" if m is None else '(Some "%s"%%string)' % m
    e = call["entry"]
    if e == "integrate": return "EIntegrate %s" % b(call["full"])
    if e == "solve_determ": return "ESolveDeterm %s" % b(call["full"])
    if e == "integrate2": return "EIntegrate2 %s %s" % (ms, b(call["full"]))
    return "EFuncJac %s %s %s" % (ms, b(call["origin"]), b(call["full"]))


def coq_case(call, n, e0, res, toks):
    es = "[" + "; ".join("(%s, %s)" % (q_of(a), q_of(b)) for a, b in zip(res["maxev"] or [], res["minev"] or [])) + "]"
    obs = "[" + "; ".join("[" + "; ".join(str(j) for j in t) + "]" for t in toks) + "]"
    return "(%s, %d%%nat, (%s, %s), %s, %s%%Z)" % (coq_entry(call), n, q_of(e0[0]), q_of(e0[1]), es, obs)


COQ_HEAD = """From Coq Require Import List ZArith QArith String Bool.
From PV Require Import Util Integrate Gen.IntegrateGen.
Import ListNotations.
"""


# ------------------------------------------------------------------ grids
def gen_grid(rng, spec, kind):
    t0, T = spec["t0"], spec["T"]
    n = int(rng.integers(2, 9))
    if kind == "uniform":
        g = np.linspace(t0, t0 + T, n + 1)[1:]
    elif kind == "integer":
        k0 = int(np.floor(t0)) + 1
        g = np.array([float(k0 + k) for k in range(0, max(2, min(n, int(np.ceil(T)))))])
    elif kind == "single":
        g = np.array([t0 + T * float(rng.uniform(0.3, 1.0))])
    else:
        inc = rng.uniform(0.05, 1.0, size=n)
        g = t0 + T * np.cumsum(inc) / inc.sum()
    return [float(round(v, 6)) for v in g]


def nontrivial(ref):
    d = np.abs(np.diff(ref, axis=0)) / (1.0 + np.abs(ref[1:]))
    return ref.shape[0] >= 3 and bool(np.all(d.max(axis=1) > SEP))


# ------------------------------------------------------------------ the check
def sweep(ck, spec, grid, calls, stats, cases, m=None):
    """run every call on one (model, grid); judge; collect Coq cases.  Returns list of (call, cls, what)"""
    ref = reference(spec, grid)
    if m is None:
        m = build(spec)
    nt = nontrivial(ref)
    e0 = (0.0, 0.0)
    try:
        ev = np.linalg.eig(np.atleast_2d(m.jacobian_T(spec["t0"], np.array(spec["x0"], dtype=float))))[0]
        e0 = (complex(max(ev)).real, complex(min(ev)).real)
    except Exception:       # noqa: BLE001
        pass
    bad = []
    for call in calls:
        res = call_entry(m, spec, call, grid)
        cls, what, worst = judge(call, res, ref, grid)
        key = dict(model=spec.get("name") or spec["events"], x0=spec["x0"], grid=grid, call=call)
        ck.case(key, nontrivial=nt)
        stats["calls"] += 1
        stats["by_entry"][call["entry"]] = stats["by_entry"].get(call["entry"], 0) + 1
        if worst is not None and cls is None:
            path = "odeint" if call["entry"] in ("integrate", "solve_determ") else "ode"
            if worst > stats["max_err"][path]:
                stats["max_err"][path] = worst
                stats.setdefault("worst_case", {})[path] = dict(model=spec.get("name") or spec["events"], t0=spec["t0"],
                                                                 x0=spec["x0"], grid=grid, call=call)
        if cls:
            bad.append((call, cls, what))
        if res["err"] is None and res["rows"].ndim == 2 and res["rows"].shape[1] == ref.shape[1]:
            n = 1 if call.get("scalar_t") else len(grid)
            cases.append((coq_case(call, n, e0, res, token_sets(call, res, ref, grid)),
                          dict(spec=spec, grid=grid, call=call)))
    return bad


def shrink(spec, grid, call):
    """smallest prefix of the grid on which the call still violates the property"""
    for k in range(1, len(grid)):
        g = grid[:k]
        try:
            ref = reference(spec, g)
            res = call_entry(build(spec), spec, call, g)
            cls, what, _ = judge(call, res, ref, g)
        except Exception:      # noqa: BLE001
            continue
        if cls:
            return g, cls, what
    return grid, None, None


def run(ck):
    import gen_integrate
    ck.rule = ("bounded-rate random models (1-4 states incl. one-state, rates p*X | p*X*Y/N | p*X/(q+X), T/B/D "
               "transitions, random t0) and catalogue models of pygom.common_models, each on a uniform, a non-uniform and "
               "a single-point grid, times every entry point x method x full_output x includeOrigin (40 calls); "
               "non-trivial = at least two requested times and consecutive reference states further apart than "
               "1e-3*(1+|x|) (so an aliased / shifted / dropped row is visible); distinct by canonical JSON hash")
    measured = None
    try:
        measured = gen_integrate.measure_scipy()
    except Exception as e:      # noqa: BLE001
        ck.notes["scipy_measurement_error"] = repr(e)
    ck.notes["scipy_measured"] = measured
    gen_text = gen_integrate.generate(measured)
    translated = "Definition translator_ok := true." in gen_text
    if not translated:
        ck.notes["translator_failed_closed"] = gen_text.split("\n", 1)[0]
    ck.coq_build("C02", [("IntegrateGen", gen_text)], extra=("Util.vo", "Integrate.vo", "IntegrateProofs.vo"))
    common.name_assumptions(ck, "C02")
    if not translated:
        for b in ck.broken:
            b["translator"] = ck.notes["translator_failed_closed"]

    rng = np.random.default_rng(ck.seed)
    t_start = time.time()
    stats = dict(calls=0, by_entry={}, max_err=dict(odeint=0.0, ode=0.0), models=[], rate_kinds={}, grids={})
    cases = []
    calls = all_calls()
    specs = []
    # corpus: always run (the recorded defects: aliased lsoda buffer, one-state model)
    specs.append(spec_catalogue("SIR"))
    specs.append(dict(kind="random", states=["X0"], params={"N": 10.0, "p0": 0.7, "p1": 1.3, "p2": 2.0},
                      events=[dict(rate="p0*X0", trans=[["D", "X0", None]]),
                              dict(rate="p1*X0/(p2 + X0)", trans=[["B", None, "X0"]])],
                      x0=[3.0], t0=0.0, T=3.0, rate_kinds=["linear", "saturating"]))
    names = sorted(CATALOGUE)
    ncat = ck.budget(5, len(names))
    pick = list(rng.permutation(names))[:ncat] if ck.quick else names
    specs += [spec_catalogue(nm, rng) for nm in pick if not (ck.quick and nm == "SIR")]
    nrand = ck.budget(20, 120)
    for i in range(nrand):
        specs.append(gen_valid_model(rng, nstate=[1, 2, 3, 4][i % 4] if i < 4 else None))
    violations = []
    for spec in specs:
        stats["models"].append(spec.get("name") or "random/%d" % len(spec["states"]))
        for k in spec.get("rate_kinds", []):
            stats["rate_kinds"][k] = stats["rate_kinds"].get(k, 0) + 1
        m = build(spec)
        kinds = ["uniform", "nonuniform"] + (["single"] if (not ck.quick or rng.random() < 0.34) else [])
        if spec["t0"] != int(spec["t0"]) or rng.random() < 0.25:
            kinds.append("integer")
        for gk in kinds:
            grid = gen_grid(rng, spec, gk)
            stats["grids"][gk] = stats["grids"].get(gk, 0) + 1
            cs = list(calls)
            if gk == "nonuniform":  # ... and a plain Python list
                cs = [dict(c, t_list=True) for c in calls]
            if gk == "integer":     # Python ints in a list / an int-typed ndarray
                cs = [dict(c, int_t=("list" if i % 2 else "array")) for i, c in enumerate(calls)]
            if gk == "single":      # the API also takes a bare number for t
                cs = cs + [dict(c, scalar_t=True) for c in calls if c.get("method") in (None, "dopri5")]
            if spec.get("name") == "Spiral":
                # hundreds of periods between two output times: vode / ivode may exhaust their step budget (nsteps = 10000) and say
                # so with an IntegrationError -- a refusal, not a wrong answer (same policy as the long-gap corpus grid below)
                cs = [dict(c, refusal_ok=True) if c.get("method") in ("vode", "ivode") else c for c in cs]
            for call, cls, what in sweep(ck, spec, grid, cs, stats, cases, m=m):
                violations.append((spec, grid, call, cls, what))
    # ---- corpus grids: (a) one long gap between output times (internal step budget of the integrators), (b) output spacing
    #      far below 1e-5 of the absolute time (calendar years with daily output, epoch seconds): times must not be merged
    fixed = [(dict(spec_catalogue("Spiral"), t0=0.0), [1.0, 2.5, 100.0]),
             (dict(spec_catalogue("SIR_norm"), t0=5000.0), [5000.02, 5000.04, 5000.06, 5000.08]),
             (dict(spec_catalogue("SIR_norm"), t0=738000.0), [738000.5, 738001.0, 738001.5]),
             # (c) solving backwards from the initial time: rows in the requested (decreasing) order
             (dict(spec_catalogue("SIR_norm"), t0=1.0), [0.75, 0.5, 0.0, -1.0]),
             # (d) an initial state given as integers (counts): the solution is not integer-valued
             (dict(spec_catalogue("SIR"), t0=0.0, x0_int="list"), [2.5, 5.0, 7.5, 10.0]),
             (dict(spec_catalogue("SEIR"), t0=0.0, x0_int="array"), [1.0, 2.0, 4.0, 8.0]),
             # (e) log-spaced output times: the longest interval is more than 1e4 times the shortest
             (dict(spec_catalogue("SIR_norm"), t0=0.0), [float(v) for v in np.logspace(-4, 1.5, 12)]),
             # (h) a stiff system over five decades of time (lsoda's stiff method uses the Jacobian); a solution that goes negative
             (dict(spec_catalogue("Robertson"), t0=0.0), [0.4, 4.0, 40.0, 400.0, 4000.0]),
             (dict(spec_catalogue("FitzHugh"), t0=0.0), [0.5, 1.0, 2.0, 4.0, 6.0]),
             # (i) a forced model solved from an initial time that is not a multiple of the forcing period
             (dict(spec_catalogue("SIS_Periodic"), t0=3.0), [3.5, 4.0, 5.5, 7.0, 11.0]),
             (dict(spec_catalogue("SIS_Periodic"), t0=0.0), [0.5, 1.0, 2.5, 4.0, 8.0]),
             # (f) the first requested time is the initial time itself (np.linspace(t0, T, n)): one row per requested time
             (dict(spec_catalogue("SIR_norm"), t0=1.0, _grid_from_t0=True), [1.0, 2.0, 3.5, 7.0]),
             # (g) head counts: one infective in sixty million (a small driving compartment next to a huge one)
             (dict(spec_catalogue("SIS"), t0=0.0, params=dict(beta=0.5, gamma=0.2, N=6.0e7), x0=[6.0e7 - 1.0, 1.0], T=30.0),
              [5.0, 10.0, 20.0, 30.0])]
    for spec, grid in fixed:
        stats["grids"]["corpus"] = stats["grids"].get("corpus", 0) + 1
        # the long gap is run on the methods whose step budget (nsteps / mxstep = 10000) covers it; vode/ivode (BDF/Adams at
        # pygom's tolerances) exhaust it and say so with an IntegrationError, which is not a wrong answer
        # (... what they may NOT do is hand back the half-integrated state as if it were the requested row: refusal or the solution)
        cs = [dict(c, refusal_ok=True) if (spec["name"] == "Spiral" and c.get("method") in ("vode", "ivode")) else c for c in calls]
        if spec["name"] == "Robertson":
            # five decades of a stiff problem: the odeint path (mxstep 10000 per interval) solves it, the step-by-step drivers
            # run out of their step budget on the long intervals and say so (IntegrationError)
            cs = [c if c["entry"] in ("integrate", "solve_determ") else dict(c, refusal_ok=True) for c in cs]
        if spec.get("_grid_from_t0"):
            # a zero-length first step: integrate / solve_determ and integrate2 with the lsoda / vode family solve it; the direct
            # integrateFuncJac calls and dopri5 / dop853 refuse it with an IntegrationError (explicit, recorded as an observation)
            cs = [c for c in cs if c["entry"] in ("integrate", "solve_determ")
                  or (c["entry"] == "integrate2" and c.get("method") in (None, "lsoda", "vode", "ivode"))]
        for call, cls, what in sweep(ck, spec, grid, cs, stats, cases):
            violations.append((spec, grid, call, cls, what))
    # ---- the accepted types of x0 / t0 / requested times
    for xn in X0_TYPES:
        for tn in T0_TYPES:
            for gn in GRID_TYPES:
                for ent in ("integrate", "integrate2", "solve_determ"):
                    bad = types_check((xn, tn, gn, ent))
                    ck.case(dict(kind="types", combo=[xn, tn, gn, ent]), nontrivial=True)
                    if bad:
                        ck.violation("input-type/" + ent, bad, dict(kind="types", combo=[xn, tn, gn, ent]))
    # ---- extra arguments of func / jac (the sensitivity systems hand their arrangement over this way)
    for call in calls:
        if call["entry"] != "integrateFuncJac":
            continue
        bad = args_check(call)
        ck.case(dict(kind="args", call=call), nontrivial=True)
        if bad:
            ck.violation("extra-arguments-not-in-force", bad, dict(kind="args", call=call))
    # ---- several solves on one model: after `initial_time` alone is changed, the same grid must be solved from the new t0
    for spec in specs[:ck.budget(6, 40)]:
        try:
            m = build(spec)
            grid = gen_grid(rng, spec, "uniform")
            gap = grid[0] - spec["t0"]
            if gap <= 1e-3:
                continue
            seq_calls = [dict(entry="integrate", full=False), dict(entry="integrate2", method=None, full=False),
                         dict(entry="solve_determ", full=False)]
            for call in seq_calls:                       # first solve: fills whatever the model keeps between calls
                call_entry(m, spec, call, grid)
            t0b = float(round(spec["t0"] + 0.5 * gap, 6))
            m.initial_time = np.float64(t0b)
            spec_b = dict(spec, t0=t0b)
            ref_b = reference(spec_b, grid)
            if ref_b is None:
                continue
            for call in seq_calls:
                res = call_entry(m, spec_b, call, grid)
                cls, what, worst = judge(call, res, ref_b, grid)
                ck.case(dict(kind="sequence-initial_time", model=spec.get("name") or spec["events"], grid=grid, t0=spec["t0"], t0b=t0b,
                             call=call), nontrivial=True)
                if cls:
                    ck.violation("after-initial_time-change/" + cls, "solved on a grid, changed initial_time from %r to %r, solved on the "
                                 "same grid again: %s" % (spec["t0"], t0b, what), dict(spec=spec, grid=grid, call=call, t0b=t0b,
                                                                                       kind="sequence-initial_time"))
        except Exception as e:      # noqa: B902
            ck.notes.setdefault("sequence_errors", []).append("%s: %s" % (type(e).__name__, str(e)[:120]))
    # ---- optional: the default Cython back-end on one catalogue model (thorough only; one compile per evaluator)
    if not ck.quick:
        try:
            spec = spec_catalogue("SIR")
            mc = build(spec, lambda_backend=False)
            grid = gen_grid(rng, spec, "nonuniform")
            for call, cls, what in sweep(ck, spec, grid, calls, stats, cases, m=mc):
                violations.append((spec, grid, call, cls, what))
            stats["cython_backend_model"] = "SIR"
        except Exception as e:      # noqa: BLE001
            stats["cython_backend_model"] = "skipped: %r" % (e,)
    # ---- thorough: validate the reference oracle itself against mpmath's Taylor-series solver
    if not ck.quick:
        worst = 0.0
        for spec in [s for s in specs if not s.get("stiff")][:6]:
            grid = gen_grid(rng, spec, "uniform")[:3]
            a, b = reference(spec, grid)[1:], reference_mp(spec, grid)
            worst = max(worst, float((np.abs(a - b) / (1 + np.abs(b))).max()))
        stats["reference_vs_mpmath_max_rel_diff"] = worst
        if worst > 1e-8:
            raise common.InternalError("reference oracle disagrees with mpmath.odefun by %g" % worst)
    stats["pygom_wall_s"] = round(time.time() - t_start, 1)

    # ---- K: the Coq model (extracted facts + measured scipy table, token flow) against the implementation
    files, shard = [], 300
    for s in range(0, len(cases), shard):
        body = ";\n ".join(c for c, _ in cases[s:s + shard])
        files.append(("c02_cases_%d" % (s // shard), COQ_HEAD +
                      "Definition cases : list tok_case := [\n " + body +
                      "].\nEval vm_compute in failing (tok_chk scipy steps wraps disp) cases.\n"))
    disagree = []
    if not translated:
        # the generated facts are placeholders: running the model on them would only add noise
        ck.notes["correspondence_skipped"] = "translator failed closed; the search below decides"
        files = []
    if files:
        outs = ck.coq_eval_many(files)
        for s in range(0, len(cases), shard):
            disagree += [s + i for i in common.parse_int_list(outs["c02_cases_%d" % (s // shard)][0])]
    ck.notes["correspondence_cases"] = len(cases)
    ck.notes["correspondence_disagreements"] = len(disagree)
    if disagree:
        ck.broken.append(dict(theorem="correspondence Integrate.run_entry (token flow) vs pygom rows", file="c02_cases",
                              error="the model predicts other rows than pygom returned for %s"
                                    % json.dumps(cases[disagree[0]][1], default=str)[:600]))
    # ---- K2: dispatch tables against the real functions
    k2 = dispatch_cases(ck, rng) if translated else None
    ck.notes["dispatch_cases"] = k2
    # ---- search results: the property stated directly on the implementation
    seen = set()
    for spec, grid, call, cls, what in violations:
        if cls in seen:
            ck.violation(cls, what, None)
            continue
        seen.add(cls)
        g, c2, w2 = shrink(spec, grid, call)
        if c2 != cls:
            g, w2 = grid, what
        ck.violation(cls, w2, dict(spec=spec, grid=g, call=call))
    ck.notes["input_distribution"] = dict(models=stats["models"], rate_kinds=stats["rate_kinds"], grids=stats["grids"],
                                          calls_by_entry=stats["by_entry"], calls=stats["calls"])
    ck.notes["tolerances"] = dict(row="|row-ref| <= tol*(1+|ref|) component-wise, tol=%g (integrate/solve_determ: odeint) / %g (integrate2/"
                                      "integrateFuncJac: scipy.integrate.ode)" % (TOL_ODEINT, TOL_ODE),
                                  observed_max_normalised_error=stats["max_err"],
                                  observed_worst_case=stats.get("worst_case"),
                                  reference="solve_ivp DOP853 (Radau for Robertson) rtol=1e-12 on a right-hand side rebuilt "
                                            "from the rate strings with sympy; thorough also compares it with mpmath.odefun",
                                  reference_vs_mpmath=stats.get("reference_vs_mpmath_max_rel_diff"))
    ck.notes["timing"] = dict(pygom_and_reference_s=stats["pygom_wall_s"], cython=stats.get("cython_backend_model"))
    ck.assumptions += [
        "scipy's steppers (odeint, ode: lsoda/vode/dopri5/dop853) return the flow of the ODE within their tolerances: a "
        "contract (Section variable Phi), validated at run time against the independent reference, not proved",
        "scipy buffer reuse is as measured at harness start (lsoda overwrites ode.y in place; set_initial_value copies)",
        "fixed (non-random) parameters; autonomous systems (pygom refuses others); real parts of the Jacobian "
        "eigenvalues are fed to the model's integrator selection (numpy orders complex numbers lexicographically)",
    ]


def dispatch_cases(ck, rng):
    """the extracted decision tree / method table against the real functions"""
    import pg
    from pygom.model import ode_utils
    vals = [-4, -3, -2.5, -2, -1.5, -1, -0.5, -0.125, 0, 0.125, 0.5, 1, 2, 3]
    eig_cases = []
    for _ in range(ck.budget(150, 600)):
        k = int(rng.integers(1, 5))
        e = sorted(float(rng.choice(vals)) for _ in range(k))
        name = ode_utils._determineIntegratorGivenEigenValue(np.array(e))
        eig_cases.append("(%s, %s, \"%s\"%%string)" % (q_of(e[-1]), q_of(e[0]), name))
    CODE = {("lsoda", None): 0, ("vode", 1): 1, ("vode", 2): 2, ("dopri5", None): 3, ("dop853", None): 4}
    f = lambda t, y: -y
    j = lambda t, y: -np.eye(1)
    meth_cases = []
    for meth in ["lsoda", "vode", "ivode", "dopri5", "dop853", "bogus", "LSODA"]:
        r = ode_utils._setupIntegrator(f, j, np.array([1.0]), 0.0, (), meth)
        ig = r._integrator
        nm = type(ig).__name__
        code = CODE[(nm, getattr(ig, "meth", None) if nm == "vode" else None)]
        ok_tol = abs(ig.atol - 1e-10) < 1e-20 and abs(ig.rtol - 1e-10) < 1e-20
        meth_cases.append("(\"%s\"%%string, %d%%nat)" % (meth, code if ok_tol else 99))
    txt = (COQ_HEAD +
           "Definition eig_cases : list (Q * Q * string) := [\n " + ";\n ".join(eig_cases) + "].\n"
           "Eval vm_compute in failing (fun c : Q * Q * string => let '(a, b, s) := c in "
           "String.eqb (eval_tree (d_eig disp) a b) s) eig_cases.\n"
           "Definition meth_cases : list (string * nat) := [" + "; ".join(meth_cases) + "].\n"
           "Eval vm_compute in failing (fun c : string * nat => "
           "Nat.eqb (ikind_code (setup_kind (d_table disp) (d_default disp) (fst c))) (snd c)) meth_cases.\n")
    out = ck.coq_eval("c02_dispatch", txt)
    bad_e, bad_m = common.parse_int_list(out[0]), common.parse_int_list(out[1])
    if bad_e:
        ck.broken.append(dict(theorem="correspondence eval_tree vs _determineIntegratorGivenEigenValue", file="c02_dispatch",
                              error="differs on %s" % eig_cases[bad_e[0]]))
    if bad_m:
        ck.broken.append(dict(theorem="correspondence setup_kind vs _setupIntegrator", file="c02_dispatch",
                              error="differs on %s" % meth_cases[bad_m[0]]))
    for c in eig_cases + meth_cases:
        ck.case(c, nontrivial=False)
    return dict(eig=len(eig_cases), methods=len(meth_cases), disagreements=len(bad_e) + len(bad_m))


X0_TYPES = {"list": list, "tuple": tuple, "array": lambda v: np.array(v, dtype=float), "float32-array": lambda v: np.array(v, dtype=np.float32)}
T0_TYPES = {"float": float, "np.float64": np.float64, "int": int, "np.int64": np.int64, "np.float32": np.float32}
GRID_TYPES = {"array": lambda g: np.array(g, dtype=float), "list": list, "tuple": tuple, "float32-array": lambda g: np.array(g, dtype=np.float32),
              "scalar": lambda g: float(g[-1]), "np.float64-scalar": lambda g: np.float64(g[-1]), "int-scalar": lambda g: int(g[-1])}


_TYPES_CTX = {}


def types_check(combo):
    """the same problem with the initial state, the initial time and the requested times handed over as other (accepted) Python /
    numpy types: the same solution.  combo = (x0 type, t0 type, grid type, entry point) -> None or what fails"""
    import pg
    xn, tn, gn, ent = combo
    spec = dict(spec_catalogue("SIR_norm"), t0=1.0)
    grid = [2.0, 3.0, 5.0]            # (exactly representable in every type used here)
    if "ref" not in _TYPES_CTX:
        _TYPES_CTX["ref"], _TYPES_CTX["m"] = reference(spec, grid), build(spec)     # one model object for the whole sweep
    ref, m = _TYPES_CTX["ref"], _TYPES_CTX["m"]
    try:
        with pg.quiet(), warnings.catch_warnings():
            warnings.simplefilter("ignore")
            m.initial_values = (X0_TYPES[xn](spec["x0"]), T0_TYPES[tn](spec["t0"]))
            r = getattr(m, ent)(GRID_TYPES[gn](grid))
    except Exception as e:      # noqa: B902
        return "%s with x0 as %s, t0 as %s, times as %s raised %s: %s" % (ent, xn, tn, gn, type(e).__name__, str(e)[:120])
    rows = np.asarray(r, dtype=float)
    want = ref if "scalar" not in gn else ref[[0, -1]]
    tol = 1e-5 if xn == "float32-array" else (TOL_ODEINT if ent != "integrate2" else TOL_ODE)     # float32(0.99) is 0.99 to 2e-8
    if not close(rows, want, tol):
        return ("%s with x0 as %s, t0 as %s, times as %s returns %s, the solution at the requested times (after the initial state) is %s"
                % (ent, xn, tn, gn, rows.tolist(), want.tolist()))
    return None


def args_check(call):
    """integrateFuncJac(func, jac, ..., args=(k,)): func and jac are given the extra argument on the whole grid.
    y0' = -k y0, y1' = k y0 - c y1 (closed form); the default k of func differs from the one handed over"""
    from pygom.model import ode_utils
    c, k, a, b = 0.3, 2.5, 3.0, 1.0

    def f(t, y, k=1.0):
        return np.array([-k * y[0], k * y[0] - c * y[1]])

    def J(t, y, k=1.0):
        return np.array([[-k, 0.0], [k, -c]])
    grid = np.array([0.5, 1.0, 2.0, 3.0])
    origin = call.get("origin", True)
    try:
        with warnings.catch_warnings():
            warnings.simplefilter("ignore")
            r = ode_utils.integrateFuncJac(f, J, np.array([a, b]), 0.0, grid, args=(k,), includeOrigin=origin,
                                           full_output=call.get("full", False), method=call.get("method"))
    except Exception as e:      # noqa: B902
        return "integrateFuncJac(%s, args=(%r,)) raised %s: %s" % (fmt_call(call), k, type(e).__name__, str(e)[:120])
    rows = np.asarray(r[0] if isinstance(r, tuple) else r, dtype=float)
    tt = np.concatenate([[0.0], grid]) if origin else grid
    ref = np.column_stack([a * np.exp(-k * tt), b * np.exp(-c * tt) + a * k * (np.exp(-k * tt) - np.exp(-c * tt)) / (c - k)])
    if not close(rows, ref, TOL_ODE):
        dflt = np.column_stack([a * np.exp(-tt), b * np.exp(-c * tt) + a * (np.exp(-tt) - np.exp(-c * tt)) / (c - 1.0)])
        return ("integrateFuncJac(%s, args=(%r,)) on y0' = -k y0, y1' = k y0 - %g y1 returns %s, the solution for k = %r is %s%s"
                % (fmt_call(call), k, c, rows.tolist(), k, ref.tolist(),
                   " (rows equal to the solution for the default k = 1 of func: %s)"
                   % [i for i in range(len(tt)) if rows.shape == ref.shape and close(rows[i], dflt[i], TOL_ODE)]))
    return None


def replay(ck, data):
    inp = data.get("input")
    if not inp:
        return None
    if inp.get("kind") == "args":
        return args_check(inp["call"])
    if inp.get("kind") == "types":
        return types_check(tuple(inp["combo"]))
    spec, grid, call = inp["spec"], inp["grid"], inp["call"]
    if inp.get("kind") == "sequence-initial_time":
        m = build(spec)
        call_entry(m, spec, call, grid)
        m.initial_time = np.float64(inp["t0b"])
        spec_b = dict(spec, t0=inp["t0b"])
        cls, what, _ = judge(call, call_entry(m, spec_b, call, grid), reference(spec_b, grid), grid)
        return what if cls else None
    ref = reference(spec, grid)
    res = call_entry(build(spec), spec, call, grid)
    cls, what, _ = judge(call, res, ref, grid)
    return what if cls else None
