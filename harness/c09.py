"""C09 — parameter values are bound to the parameters they were given for."""
import copy, json, os, sys
import numpy as np
import common
sys.path.insert(0, os.path.join(common.VERIF, "gen"))

NAMES = ["a", "b", "c", "d", "e"]
UNKNOWN = 99


UNKNOWN_T, UNKNOWN_STATE = 98, 97      # names the model knows as symbols but that are not parameters


def pname(i):
    if i == UNKNOWN_T: return "t"
    if i == UNKNOWN_STATE: return "x0"
    return NAMES[i] if i < len(NAMES) else "zz%d" % i


def unknown(rng):
    return [UNKNOWN, UNKNOWN_T, UNKNOWN_STATE][int(rng.integers(0, 3))]


# ------------------------------------------------------------------ pygom side
def fresh_model(n):
    import pg
    ps = NAMES[:n]
    return pg.model(state=["x%d" % i for i in range(n)], param=ps,
                    ode=[pg.Transition(origin="x%d" % i, equation=ps[i], transition_type=pg.TransitionType.ODE)
                         for i in range(n)])


VTYPES = {"float": float, "float64": np.float64, "int64": np.int64, "float32": np.float32, "int32": np.int32}


def py_value(op, m):
    import sympy
    k, it = op["kind"], op["items"]
    vt = op.get("vtype")
    if vt:
        # the numbers handed over as numpy scalars / floats instead of Python ints (float32 only where it is exact)
        conv = VTYPES[vt]
        ok = lambda v: isinstance(v, int) and (vt != "float32" or abs(v) < 2 ** 24)
        if k in ("list", "tuple"):
            it = [conv(v) if ok(v) else v for v in it]
        elif k == "array":
            return np.array(it, dtype=conv if vt in ("int64", "int32", "float32") and all(ok(v) for v in it) else float)
        elif k not in ("array_col", "array2d"):
            it = [[p_, conv(v) if ok(v) else v] for p_, v in it]
    if k == "list": return [v for v in it]
    if k == "tuple": return tuple(it)
    if k == "array": return np.array(it, dtype=float)
    if k == "array_col": return np.array(it, dtype=float).reshape(-1, 1)
    if k == "array2d": return np.array(it, dtype=float).reshape(op["rows"], -1)
    if k == "pairs": return [(pname(p), v) for p, v in it]
    if k == "pairs_tuple": return tuple((pname(p), v) for p, v in it)
    if k == "dict_str": return {pname(p): v for p, v in it}
    if k == "dict_sym": return {sympy.Symbol(pname(p)): v for p, v in it}
    if k == "dict_mixed":
        return {(sympy.Symbol(pname(p)) if j % 2 else pname(p)): v for j, (p, v) in enumerate(it)}
    raise ValueError(k)


def fresh_model_reversed(n):
    """the same equations with the parameters declared in the opposite order (a second model in the same process)"""
    import pg
    ps = NAMES[:n]
    return pg.model(state=["x%d" % i for i in range(n)], param=ps[::-1],
                    ode=[pg.Transition(origin="x%d" % i, equation=ps[i], transition_type=pg.TransitionType.ODE)
                         for i in range(n)])


def run_history(n, ops):
    """returns per op: dict(ok, pval, seen) where seen = ode(x,t), i.e. the value bound to each parameter"""
    m = fresh_model(n)
    out = []
    for op in ops:
        try:
            val = py_value(op, m)
            m.parameters = val
            ok = True
            # what was assigned are the VALUES: the caller's container may be reused for something else afterwards
            if isinstance(val, list) and val and not isinstance(val[0], tuple):
                val[:] = [v + 100000 for v in val]
            elif isinstance(val, np.ndarray):
                val[...] = val + 100000
            elif isinstance(val, dict):
                for k in list(val):
                    val[k] = val[k] + 100000
        except BaseException as e:          # noqa: B902  (pygom raises Exception/Warning/AttributeError)
            ok = False
        pval = [int(v) if float(v) == int(v) else float(v) for v in (m._paramValue or [])] \
            if hasattr(m, "_paramValue") and m._paramValue is not None else []
        try:
            seen = [float(v) for v in np.asarray(m.ode(np.zeros(n), 0.0)).ravel()]
        except BaseException:
            seen = None
        out.append(dict(ok=ok, pval=pval, seen=seen))
    # a second model with the same equations and the parameters declared in the opposite order, given the final values by name
    if out and out[-1]["seen"] is not None and any(r["ok"] for r in out):
        try:
            m2 = fresh_model_reversed(n)
            m2.parameters = {NAMES[i]: out[-1]["seen"][i] for i in range(n)}
            out[-1]["rev_seen"] = [float(v) for v in np.asarray(m2.ode(np.zeros(n), 0.0)).ravel()]
        except BaseException as e:          # noqa: B902
            out[-1]["rev_seen"] = "%s: %s" % (type(e).__name__, str(e)[:100])
    return out


def random_partial_check(n, seed):
    """a partial dict update whose value is a distribution (drawn at assignment): the named parameter gets a draw from it, every
    other parameter keeps its value — also after the model re-draws (integrate).  -> None or what fails"""
    import scipy.stats as st
    m = fresh_model(n)
    base = [float(10 + 3 * i) for i in range(n)]
    m.parameters = list(base)
    k = seed % n
    np.random.seed(seed)
    for form in ("frozen", "tuple"):
        if form == "frozen":
            m.parameters = {NAMES[k]: st.uniform(0.4, 0.2)}
        else:
            import pygom.utilR as uR
            m.parameters = {NAMES[k]: (uR.runif, (0.4, 0.6))}
        seen = [float(v) for v in np.asarray(m.ode(np.zeros(n), 0.0)).ravel()]
        for i in range(n):
            if i != k and seen[i] != base[i]:
                return ("after parameters = {%s: <%s uniform(0.4, 0.6)>} on a model holding %s, parameter %s evaluates to %r"
                        % (NAMES[k], form, base, NAMES[i], seen[i]))
        if not 0.4 <= seen[k] <= 0.6:
            return "parameter %s given a uniform(0.4, 0.6) distribution (%s form) evaluates to %r" % (NAMES[k], form, seen[k])
    return None


# ------------------------------------------------------------------ independent specification (Python)
def growth_check(kind, grow):
    """the model is extended after construction (a parameter, or a state, is added through the list setters, with an ODE term
    that uses it); the FIRST assignment afterwards, in the given format, binds every name to its value.  -> None or what fails"""
    import pg
    n = 2
    m = fresh_model(n)
    m.parameters = [3, 4]
    first = [float(v) for v in np.asarray(m.ode(np.zeros(n), 0.0)).ravel()]
    if first != [3.0, 4.0]:
        return "before the extension ode() sees %s, the values given are [3, 4]" % first
    if grow == "param":
        m.param_list = [NAMES[n]]
        m.state_list = ["x%d" % n]
        m.add_ode(pg.Transition(origin="x%d" % n, equation=NAMES[n], transition_type=pg.TransitionType.ODE))
        n += 1
    else:
        m.state_list = ["x%d" % n]
        m.add_ode(pg.Transition(origin="x%d" % n, equation="%s+%s" % (NAMES[0], NAMES[1]), transition_type=pg.TransitionType.ODE))
    vals = [11, 5, 9][:2 + (grow == "param")]
    op = dict(kind=kind, items=vals if kind in ("list", "tuple", "array") else [[i, v] for i, v in enumerate(vals)])
    try:
        m.parameters = py_value(op, m)
    except Exception as e:      # noqa: B902
        return "after %s was added, the assignment (%s) of %s raised %s: %s" % (grow, kind, vals, type(e).__name__, str(e)[:100])
    seen = [float(v) for v in np.asarray(m.ode(np.zeros(len(m.state_list)), 0.0)).ravel()]
    want = [float(v) for v in vals] if grow == "param" else [11.0, 5.0, 16.0]
    if seen != want:
        return ("after a %s was added to the model, the first assignment (%s form) of %s is seen by ode() as %s (expected %s)"
                % ("parameter" if grow == "param" else "state", kind, vals, seen, want))
    # and a second, partial one
    m.parameters = {NAMES[1]: 21}
    seen = [float(v) for v in np.asarray(m.ode(np.zeros(len(m.state_list)), 0.0)).ravel()]
    want[1] = 21.0
    if grow != "param":
        want[2] = 32.0
    if seen != want:
        return "after a %s was added and all values assigned (%s form), {%s: 21} is seen by ode() as %s (expected %s)" % (grow, kind, NAMES[1], seen, want)
    return None


def spec_history(n, ops):
    """the property read literally: name -> value map; full forms replace, dict merges, rejected = no-op.
    returns per op (ok_expected, map) ; ok_expected None = property silent (duplicate names in pairs)"""
    sp = {i: 0 for i in range(n)}
    out = []
    for op in ops:
        k, it = op["kind"], op["items"]
        if k == "array2d":
            ok = (op["rows"] == n and len(it) == n)
            if ok: sp = {i: it[i] for i in range(n)}
        elif k in ("list", "tuple", "array", "array_col"):
            ok = len(it) == n
            if ok: sp = {i: it[i] for i in range(n)}
        elif k.startswith("pairs"):
            names = [p for p, _ in it]
            if any(p >= n for p in names) or len(it) != n: ok = False
            elif len(set(names)) != len(names): ok = None
            else: ok = True
            if ok: sp = {p: v for p, v in it}
            if ok is None:
                sp = {i: 0 for i in range(n)}; sp.update({p: v for p, v in it})
        else:
            names = [p for p, _ in it]
            ok = all(p < n for p in names) and len(set(names)) <= n
            if len(it) > n: ok = False
            if ok:
                sp = dict(sp); sp.update({p: v for p, v in it})
        out.append((ok, dict(sp)))
    return out


# ------------------------------------------------------------------ generator
def gen_history(rng, maxlen):
    n = int(rng.integers(1, 6))
    L = int(rng.integers(1, maxlen + 1))
    ops = []
    for _ in range(L):
        r = rng.random()
        # mostly small integers; sometimes values that differ from each other by parts in a billion (a change is a change)
        val = lambda: int(rng.integers(-50, 1000)) if rng.random() > 0.12 else 1000000000 + int(rng.integers(0, 4))
        bad = rng.random() < 0.18          # malformed stream
        if r < 0.07:
            # 2-D arrays: (n,k), (k,n), (1,n), (n,1)
            rows, cols = [(n, int(rng.integers(2, 4))), (int(rng.integers(2, 4)), n), (1, n), (n, 1)][int(rng.integers(0, 4))]
            ops.append(dict(kind="array2d", rows=rows, items=[val() for _ in range(rows * cols)]))
        elif r < 0.3:
            kind = ["list", "tuple", "array", "array_col"][int(rng.integers(0, 4))]
            ln = n if not bad else int(rng.choice([k for k in range(0, 7) if k != n and k > 0]))
            ops.append(dict(kind=kind, items=[val() for _ in range(ln)]))
        elif r < 0.55:
            perm = list(rng.permutation(n))
            items = [[int(p), val()] for p in perm]
            if bad:
                c = rng.random()
                if c < 0.5: items[int(rng.integers(0, n))][0] = unknown(rng)
                elif c < 0.8 and n > 1: items = items[:-1]
                elif n > 1: items[0][0] = items[1][0]
            ops.append(dict(kind="pairs" if rng.random() < 0.8 else "pairs_tuple", items=items))
        else:
            k = int(rng.integers(0, n + 1))
            sub = list(rng.permutation(n))[:k]
            items = [[int(p), val()] for p in sub]
            if bad:
                pos = int(rng.integers(0, len(items) + 1))
                items.insert(pos, [unknown(rng), val()])
            kind = ["dict_str", "dict_sym", "dict_mixed"][int(rng.integers(0, 3))]
            if kind == "dict_mixed" or True:
                pass
            ops.append(dict(kind=kind, items=items))
        if rng.random() < 0.3:
            ops[-1]["vtype"] = list(VTYPES)[int(rng.integers(0, len(VTYPES)))]
    return dict(n=n, ops=ops)


def coq_op(op):
    k, it = op["kind"], op["items"]
    if k == "array2d":
        return "SetArr %d%%nat %s" % (op["rows"], common.z_list(it))
    if k in ("list", "tuple", "array", "array_col"):
        return "SetList " + common.z_list(it)
    body = "[" + "; ".join("(%d%%nat, %s)" % (p, ("%d" % v if v >= 0 else "(%d)" % v)) for p, v in it) + "]"
    return ("SetPairs " if k.startswith("pairs") else "SetDict ") + body


def coq_case(h, res):
    exp = "[" + "; ".join("(%s, %s)" % (common.z_list(r["pval"]), "true" if r["ok"] else "false") for r in res) + "]"
    return "(%s, [%s], %s)" % (common.nat_list(range(h["n"])), "; ".join(coq_op(o) for o in h["ops"]), exp)


COQ_HEAD = """From Coq Require Import List ZArith Bool.
From PV Require Import Util Params ParamsAtomic Gen.ParamsGen.
Import ListNotations. Open Scope Z_scope.
Definition res_eqb (a b : list Z * bool) := zlist_eqb (fst a) (fst b) && Bool.eqb (snd a) (snd b).
(* names 97 (a state) and 98 (t) are symbols of the model that are not parameters; 99 is unknown altogether *)
Definition chk (c : list nat * list op * list (list Z * bool)) : bool :=
  let '(decl, ops, exp) := c in
  list_eqb res_eqb (if dict_branch_aliases then trace decl true (init decl) ops
                    else trace_f decl [97%nat; 98%nat] commit_is_atomic (init decl) ops) exp.
"""


def judge(h, res):
    """direct statement of the property on the implementation; returns (cls, what) or None"""
    sp = spec_history(h["n"], h["ops"])
    rejected_dict_before = False
    accepted = False
    for i, (r, (ok, m)) in enumerate(zip(res, sp)):
        if ok is None:
            accepted = True
            continue
        if ok is False and r["ok"]:
            return ("malformed-accepted", "op %d (%s) should be rejected but was accepted" % (i, h["ops"][i]["kind"]))
        if ok is True and not r["ok"]:
            return ("wellformed-rejected", "op %d (%s) is a valid assignment but raised" % (i, h["ops"][i]["kind"]))
        accepted = accepted or bool(ok)
        want = [float(m[j]) for j in range(h["n"])]
        if not accepted:
            continue          # nothing has been bound yet: the model cannot be evaluated
        if r["seen"] is None or [float(x) for x in r["seen"]] != want:
            cls = "rejected-dict-leak" if rejected_dict_before else "binding-mismatch"
            return (cls, "after op %d evaluators see %s but the values given by name are %s" % (i, r["seen"], want))
        if ok is False and h["ops"][i]["kind"].startswith("dict"):
            rejected_dict_before = True
    last = res[-1] if res else {}
    if "rev_seen" in last and last["rev_seen"] != last["seen"]:
        return ("second-model-order", "a second model with the same equations and parameters declared in the opposite order, given %s by "
                "name, evaluates to %s" % (last["seen"], last["rev_seen"]))
    return None


def shrink(h, pred):
    ops = list(h["ops"])
    changed = True
    while changed:
        changed = False
        for i in range(len(ops)):
            cand = ops[:i] + ops[i + 1:]
            if cand and pred(dict(n=h["n"], ops=cand)):
                ops = cand; changed = True; break
    return dict(n=h["n"], ops=ops)


CORPUS = [
    dict(n=3, ops=[dict(kind="list", items=[1, 2, 3]), dict(kind="array2d", rows=3, items=[7, 8, 9, 10, 11, 12])]),
    dict(n=3, ops=[dict(kind="list", items=[1, 2, 3]), dict(kind="array2d", rows=1, items=[7, 8, 9])]),
    dict(n=3, ops=[dict(kind="list", items=[7, 8, 9]), dict(kind="dict_str", items=[[1, 555], [UNKNOWN, 1]]),
                   dict(kind="dict_str", items=[[0, 1]])]),
    dict(n=3, ops=[dict(kind="pairs", items=[[2, 1], [0, 2], [1, 3]]), dict(kind="dict_sym", items=[[1, 5]]),
                   dict(kind="array", items=[7, 8, 9]), dict(kind="dict_mixed", items=[[1, 5], [0, 11]])]),
    dict(n=1, ops=[dict(kind="list", items=[5]), dict(kind="dict_str", items=[[0, 6]]), dict(kind="pairs", items=[[0, 4]])]),
    # successive values that differ by one part in a billion
    dict(n=2, ops=[dict(kind="list", items=[1000000000, 7]), dict(kind="list", items=[1000000001, 7]),
                   dict(kind="dict_str", items=[[0, 1000000002]]), dict(kind="pairs", items=[[1, 7], [0, 1000000003]])]),
    # names the model knows as symbols but that are not parameters (t, a state): rejected, and nothing changes
    dict(n=1, ops=[dict(kind="dict_str", items=[[UNKNOWN_T, 868]]), dict(kind="dict_mixed", items=[[0, 904]])]),
    dict(n=5, ops=[dict(kind="pairs", items=[[4, 813], [3, 779], [1, 386], [2, 852], [0, 821]]),
                   dict(kind="pairs", items=[[0, 83], [1, -12], [UNKNOWN_T, 858], [3, 378], [2, 12]])]),
    dict(n=3, ops=[dict(kind="list", items=[7, 8, 9]), dict(kind="dict_sym", items=[[UNKNOWN_STATE, 5], [2, 224]]),
                   dict(kind="dict_str", items=[[1, 349]])]),
]


def run(ck):
    import gen_params
    ck.rule = ("random assignment histories (1-5 parameters, 1-%d ops, formats list/tuple/ndarray/pairs/dict by "
               "str/Symbol/mixed, partial dicts, 18%% malformed ops); non-trivial = at least 2 accepted ops of "
               "different formats; distinct by canonical JSON hash") % ck.budget(8, 14)
    ok = ck.coq_build("C09", [("ParamsGen", gen_params.generate())], extra=("Util.vo", "ParamsAtomic.vo"))
    common.name_assumptions(ck, "C09")
    rng = np.random.default_rng(ck.seed)
    N = ck.budget(400, 4000)
    hs = list(CORPUS) + [gen_history(rng, ck.budget(8, 14)) for _ in range(N)]
    results = []
    dist = {}
    for h in hs:
        res = run_history(h["n"], h["ops"])
        results.append(res)
        kinds = {o["kind"].split("_")[0] for o, r in zip(h["ops"], res) if r["ok"]}
        ck.case(h, nontrivial=len(kinds) >= 2)
        for o, r in zip(h["ops"], res):
            key = o["kind"] + (":ok" if r["ok"] else ":rejected")
            dist[key] = dist.get(key, 0) + 1
    ck.notes["input_distribution"] = dist
    for n_, sd in ((3, 1), (2, 4), (5, 7)):
        ck.case(dict(kind="random-partial", n=n_, seed=sd), nontrivial=True)
        try:
            bad = random_partial_check(n_, sd)
        except Exception as e:          # noqa: BLE001
            bad = "%s: %s" % (type(e).__name__, str(e)[:150])
        if bad:
            ck.violation("binding-mismatch/random-partial", bad, dict(kind="random-partial", n=n_, seed=sd))
    for kind in ("list", "tuple", "array", "pairs", "dict_str", "dict_sym"):
        for grow in ("param", "state"):
            ck.case(dict(kind="growth", form=kind, grow=grow), nontrivial=True)
            try:
                bad = growth_check(kind, grow)
            except Exception as e:          # noqa: BLE001
                bad = "%s: %s" % (type(e).__name__, str(e)[:150])
            if bad:
                ck.violation("binding-mismatch/after-growth", bad, dict(kind="growth", form=kind, grow=grow))
    # ---- K: the Coq model (with the extracted alias fact) against the implementation, op by op
    files = []
    shard = 400
    for s in range(0, len(hs), shard):
        body = ";\n ".join(coq_case(h, r) for h, r in zip(hs[s:s + shard], results[s:s + shard]))
        files.append(("c09_cases_%d" % (s // shard),
                      COQ_HEAD + "Definition cases := [\n " + body + "].\nEval vm_compute in failing chk cases.\n"))
    outs = ck.coq_eval_many(files)
    disagree = []
    for s in range(0, len(hs), shard):
        v = outs["c09_cases_%d" % (s // shard)][0]
        idx = common.parse_int_list(v)
        disagree += [s + i for i in idx]
    ck.notes["correspondence_cases"] = len(hs)
    ck.notes["correspondence_disagreements"] = len(disagree)
    if disagree:
        h = hs[disagree[0]]
        ck.broken.append(dict(theorem="correspondence Params.trace vs BaseOdeModel.parameters",
                              file="c09_cases", error="model and implementation differ on history %s" % json.dumps(h)))
    # ---- search: the property stated directly on the implementation
    for h, res in zip(hs, results):
        j = judge(h, res)
        if j:
            hmin = shrink(h, lambda hh: (judge(hh, run_history(hh["n"], hh["ops"])) or (None,))[0] == j[0])
            jm = judge(hmin, run_history(hmin["n"], hmin["ops"]))
            ck.violation(jm[0], jm[1], hmin)
    ck.assumptions += ["parameter values are observed through ode(x,t) of a probe model whose i-th ODE is the i-th parameter",
                       "Python dict preserves insertion order and replaces in place (CPython >= 3.7)"]


def replay(ck, data):
    h = data["input"]
    if h.get("kind") == "random-partial":
        return random_partial_check(h["n"], h["seed"])
    if h.get("kind") == "growth":
        return growth_check(h["form"], h["grow"])
    j = judge(h, run_history(h["n"], h["ops"]))
    return j[1] if j else None
