"""Driver: ./check <id> [--tier quick|thorough] [--replay file]; exit 0 held / 1 violation / 2 internal error."""
import argparse, importlib, json, os, signal, sys, traceback
sys.path.insert(0, os.path.dirname(os.path.abspath(__file__)))
import common


class Watchdog(BaseException):
    pass


# a check of the unchanged tree takes minutes (quick) to a quarter of an hour (thorough); code under check that no longer
# terminates (an integrator whose step control rejects for ever, a simulation whose clock stopped) must end in a report
LIMIT = dict(quick=3600, thorough=4 * 3600)


def _expired(signum, frame):
    raise Watchdog()


def main():
    ap = argparse.ArgumentParser()
    ap.add_argument("pid")
    ap.add_argument("--tier", default=os.environ.get("VERIF_TIER", "quick"), choices=["quick", "thorough"])
    ap.add_argument("--replay")
    a = ap.parse_args()
    seed = int(os.environ.get("VERIF_SEED", "0") or 0)
    ck = common.Check(a.pid, a.tier, seed)
    mod = importlib.import_module(a.pid.lower())
    try:
        if a.replay:
            data = json.load(open(a.replay))
            bad = mod.replay(ck, data)
            if bad:
                print("VIOLATION property=%s replay=%s" % (a.pid, a.replay))
                print("  -> " + str(bad))
                return 1
            print("replay: property holds on this input")
            return 0
        signal.signal(signal.SIGALRM, _expired)
        limit = int(os.environ.get("VERIF_WATCHDOG", LIMIT[a.tier]))
        signal.alarm(limit)
        try:
            mod.run(ck)
        except Watchdog:
            signal.alarm(0)
            where = traceback.format_exc().splitlines()
            where = [l.strip() for l in where if l.strip().startswith("File ")][-6:]
            ck.violation("did-not-terminate", "the check had not finished after %d s (the unchanged tree needs minutes); it was in: %s; "
                         "last completed case: %s" % (limit, " <- ".join(reversed(where)), json.dumps(ck.last_case, default=str)[:300]),
                         dict(kind="did-not-terminate", last_case=ck.last_case))
        signal.alarm(0)
        return ck.finish()
    except Exception as e:
        traceback.print_exc()
        print("INTERNAL-ERROR property=%s %s" % (a.pid, e))
        try:
            ck.notes["internal_error"] = repr(e)
            ck.write_evidence(0)
        except Exception:
            pass
        return 2


if __name__ == "__main__":
    sys.exit(main())
