"""Driver: ./check <id> [--tier quick|thorough] [--replay file]; exit 0 held / 1 violation / 2 internal error."""
import argparse, importlib, json, os, sys, traceback
sys.path.insert(0, os.path.dirname(os.path.abspath(__file__)))
import common


def main():
    ap = argparse.ArgumentParser()
    ap.add_argument("pid")
    ap.add_argument("--tier", default=os.environ.get("VERIF_TIER", "quick"), choices=["quick", "thorough"])
    ap.add_argument("--replay")
    a = ap.parse_args()
    seed = int(os.environ.get("VERIF_SEED", "0") or 0)
    ck = common.Check(a.pid, a.tier, seed)
    mod = importlib.import_module(a.pid.lower())
    try:
        if a.replay:
            data = json.load(open(a.replay))
            bad = mod.replay(ck, data)
            if bad:
                print("VIOLATION property=%s replay=%s" % (a.pid, a.replay))
                print("  -> " + str(bad))
                return 1
            print("replay: property holds on this input")
            return 0
        mod.run(ck)
        return ck.finish()
    except Exception as e:
        traceback.print_exc()
        print("INTERNAL-ERROR property=%s %s" % (a.pid, e))
        try:
            ck.notes["internal_error"] = repr(e)
            ck.write_evidence(0)
        except Exception:
            pass
        return 2


if __name__ == "__main__":
    sys.exit(main())
