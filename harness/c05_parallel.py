"""C05, parallel=True: exact simulation through the dask branch of solve_stochast, in a process of its own (the model must not
have been compiled in the calling process).  Prints one JSON object."""
import json, sys
import numpy as np


def main():
    from pygom import Transition, Event, SimulateOde
    n, rA, rB, A0 = 24, 2.0, 0.5, 30
    m = SimulateOde(state=["A", "B", "C"], param=["r", "s"],
                    event=[Event(rate="r*A", transition_list=[Transition(origin="A", destination="B", transition_type="T")]),
                           Event(rate="s*B", transition_list=[Transition(origin="B", destination="C", transition_type="T")])])
    m.parameters = {"r": rA, "s": rB}
    m.initial_values = ([float(A0), 0.0, 0.0], np.float64(0))
    np.random.seed(5)
    out = dict(n=n, total_rate=rA * A0)
    try:
        X, J, T = m.solve_stochast(0.6, n, exact=True, parallel=True, full_output=True)
        out["paths"] = len(X)
        out["first_waits"] = [float(np.asarray(t).ravel()[1]) if len(np.asarray(t).ravel()) > 1 else None for t in T]
        out["events_per_step"] = [sorted(set(int(v) for v in np.asarray(j).reshape(len(j), -1).sum(axis=1))) if len(j) else [] for j in J]
        dx_bad = 0
        V = np.array([[-1, 0], [1, -1], [0, 1]], dtype=float)
        for x, j in zip(X, J):
            x = np.asarray(x, dtype=float); j = np.asarray(j, dtype=float).reshape(len(j), -1)
            if len(j) and not np.array_equal(np.diff(x, axis=0), j @ V.T):
                dx_bad += 1
        out["paths_with_dx_not_V_counts"] = dx_bad
    except BaseException as e:       # noqa: B902
        out["error"] = "%s: %s" % (type(e).__name__, str(e)[:200])
    print("C05PAR " + json.dumps(out))


if __name__ == "__main__":
    main()
